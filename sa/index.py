"""E1 -- source index: parse every module of the package under analysis with `ast`

Builds per-module symbol tables (imports with aliases, functions, classes incl. classes nested
in namespace classes, module-level assignments), the class hierarchy with a C3 MRO, decorator
lists with keyword arguments and dataclass field tables.  Nothing is imported or executed.
"""

from __future__ import annotations

import ast
import hashlib
import os
from dataclasses import dataclass, field
from typing import Iterable, Iterator


class AnalysisError(Exception):
    """the analysis cannot decide: an anchor vanished or a construct has an unfamiliar shape

    always reported as ANALYSIS-ERROR (exit 2), never as a violation and never as a pass
    """


class AnchorMissing(AnalysisError):
    pass


@dataclass
class FieldInfo:
    name: str
    annotation: ast.expr | None
    value: ast.expr | None  # right-hand side, may be serializable_field(...)/field(...) call
    node: ast.stmt
    owner: "ClassInfo"

    @property
    def field_call(self) -> ast.Call | None:
        v = self.value
        if isinstance(v, ast.Call):
            fn = v.func
            nm = fn.attr if isinstance(fn, ast.Attribute) else getattr(fn, "id", None)
            if nm in ("serializable_field", "field", "SerializableField"):
                return v
        return None

    def kwarg(self, name: str) -> ast.expr | None:
        c = self.field_call
        if c is None:
            return None
        for kw in c.keywords:
            if kw.arg == name:
                return kw.value
        return None

    @property
    def default(self) -> ast.expr | None:
        "the default value expression, if any (either plain or `default=` of the field call)"
        c = self.field_call
        if c is None:
            return self.value
        return self.kwarg("default")

    def bool_kwarg(self, name: str, default: bool) -> bool:
        v = self.kwarg(name)
        if v is None:
            return default
        if isinstance(v, ast.Constant) and isinstance(v.value, bool):
            return v.value
        raise AnalysisError(
            f"field {self.owner.qualname}.{self.name}: `{name}=` is not a bool literal: {ast.unparse(v)}"
        )


@dataclass
class Decorator:
    name: str  # canonical dotted name of the decorator callable
    node: ast.expr
    call: ast.Call | None

    def kwarg(self, name: str) -> ast.expr | None:
        if self.call is None:
            return None
        for kw in self.call.keywords:
            if kw.arg == name:
                return kw.value
        return None


@dataclass
class FuncInfo:
    qualname: str
    name: str
    node: ast.FunctionDef
    module: "Module"
    cls: "ClassInfo | None"
    decorators: list[Decorator] = field(default_factory=list)
    parent: "FuncInfo | None" = None  # enclosing function for nested defs
    nested: dict = field(default_factory=dict)  # name -> FuncInfo of nested defs

    @property
    def relpath(self) -> str:
        return self.module.relpath

    @property
    def is_static(self) -> bool:
        return any(d.name in ("staticmethod", "builtins.staticmethod") for d in self.decorators)

    @property
    def is_classmethod(self) -> bool:
        return any(d.name in ("classmethod", "builtins.classmethod") for d in self.decorators)

    @property
    def is_property(self) -> bool:
        return any(
            d.name in ("property", "functools.cached_property", "cached_property")
            for d in self.decorators
        )

    def params(self) -> list[str]:
        a = self.node.args
        return [x.arg for x in [*a.posonlyargs, *a.args, *a.kwonlyargs]]

    def param_default(self, name: str) -> ast.expr | None:
        a = self.node.args
        pos = [*a.posonlyargs, *a.args]
        defaults = [None] * (len(pos) - len(a.defaults)) + list(a.defaults)
        for p, d in zip(pos, defaults):
            if p.arg == name:
                return d
        for p, d in zip(a.kwonlyargs, a.kw_defaults):
            if p.arg == name:
                return d
        raise AnalysisError(f"{self.qualname} has no parameter `{name}`")


@dataclass
class ClassInfo:
    qualname: str
    name: str
    node: ast.ClassDef
    module: "Module"
    outer: "ClassInfo | None"
    bases: list[str] = field(default_factory=list)  # canonical dotted names
    decorators: list[Decorator] = field(default_factory=list)
    methods: dict[str, FuncInfo] = field(default_factory=dict)
    nested: dict[str, "ClassInfo"] = field(default_factory=dict)
    fields: dict[str, FieldInfo] = field(default_factory=dict)  # annotated assignments, in order
    assigns: dict[str, ast.expr] = field(default_factory=dict)  # plain class-level assignments

    @property
    def relpath(self) -> str:
        return self.module.relpath

    def decorator(self, suffix: str) -> Decorator | None:
        for d in self.decorators:
            if d.name == suffix or d.name.endswith("." + suffix):
                return d
        return None


@dataclass
class Module:
    name: str
    path: str
    relpath: str
    source: str
    tree: ast.Module
    imports: dict[str, str] = field(default_factory=dict)
    functions: dict[str, FuncInfo] = field(default_factory=dict)
    classes: dict[str, ClassInfo] = field(default_factory=dict)
    assigns: dict[str, ast.expr] = field(default_factory=dict)
    assign_nodes: dict[str, ast.stmt] = field(default_factory=dict)
    is_package: bool = False


def dotted_of(node: ast.AST) -> str | None:
    "`a.b.c` -> 'a.b.c' for Name/Attribute chains, else None"
    parts: list[str] = []
    while isinstance(node, ast.Attribute):
        parts.append(node.attr)
        node = node.value
    if isinstance(node, ast.Name):
        parts.append(node.id)
        return ".".join(reversed(parts))
    return None


class SourceIndex:
    def __init__(self, repo_root: str, package: str = "maze_dataset", normalize: bool = True) -> None:
        self.repo_root = os.path.abspath(repo_root)
        self.package = package
        self.normalize = normalize
        self.normalization_log: dict[str, list[str]] = {}
        self.modules: dict[str, Module] = {}
        self.functions: dict[str, FuncInfo] = {}
        self.classes: dict[str, ClassInfo] = {}
        self.digests: dict[str, str] = {}
        self.consulted: set[str] = set()
        pkg_dir = os.path.join(self.repo_root, package)
        if not os.path.isdir(pkg_dir):
            raise AnchorMissing(f"package directory {pkg_dir} does not exist")
        for dirpath, dirnames, filenames in sorted(os.walk(pkg_dir)):
            dirnames[:] = sorted(d for d in dirnames if d != "__pycache__")
            for fn in sorted(filenames):
                if fn.endswith(".py"):
                    self._load(os.path.join(dirpath, fn))
        if self.normalize:
            from sa.normalize import new_module_level_helpers, normalize_module, recover_function_renames

            glog: list[str] = []
            try:
                recover_function_renames({n: m.tree for n, m in self.modules.items()}, glog)
            except RecursionError:  # pragma: no cover
                pass
            if glog:
                self.normalization_log["<package>"] = glog
            foreign = new_module_level_helpers({n: m.tree for n, m in self.modules.items()})
            for name, m in self.modules.items():
                log: list[str] = []
                try:
                    m.tree = normalize_module(m.tree, name, log, foreign)
                except RecursionError:  # pragma: no cover
                    m.tree = ast.parse(m.source, filename=m.path)
                if log:
                    self.normalization_log[m.relpath] = log
        for m in self.modules.values():
            self._collect(m)
        for c in list(self.classes.values()):
            self._resolve_class(c)
        for m in self.modules.values():
            for f in m.functions.values():
                f.decorators = [self._decorator(m, d, None) for d in f.node.decorator_list]

    # ------------------------------------------------------------------ loading
    def _load(self, path: str) -> None:
        rel = os.path.relpath(path, self.repo_root)
        parts = rel[:-3].split(os.sep)
        is_pkg = parts[-1] == "__init__"
        if is_pkg:
            parts = parts[:-1]
        name = ".".join(parts)
        with open(path, "rb") as f:
            raw = f.read()
        self.digests[rel] = hashlib.sha256(raw).hexdigest()
        src = raw.decode("utf-8")
        try:
            tree = ast.parse(src, filename=path)
        except SyntaxError as e:
            raise AnalysisError(f"{rel} does not parse: {e}") from e
        self.modules[name] = Module(
            name=name, path=path, relpath=rel, source=src, tree=tree, is_package=is_pkg
        )

    def _collect(self, m: Module) -> None:
        pkg = m.name if m.is_package else m.name.rpartition(".")[0]
        for node in ast.walk(m.tree):
            if isinstance(node, ast.Import):
                for a in node.names:
                    if a.asname:
                        m.imports[a.asname] = a.name
                    else:
                        top = a.name.split(".")[0]
                        m.imports.setdefault(top, top)
            elif isinstance(node, ast.ImportFrom):
                base = node.module or ""
                if node.level:
                    up = pkg.split(".")
                    up = up[: len(up) - (node.level - 1)] if node.level > 1 else up
                    base = ".".join([*up, base]) if base else ".".join(up)
                for a in node.names:
                    m.imports[a.asname or a.name] = f"{base}.{a.name}"
        self._collect_body(m, m.tree.body, None)

    def _collect_body(self, m: Module, body: list[ast.stmt], outer: ClassInfo | None) -> None:
        prefix = outer.qualname if outer else m.name
        for st in body:
            if isinstance(st, (ast.FunctionDef, ast.AsyncFunctionDef)):
                fi = FuncInfo(
                    qualname=f"{prefix}.{st.name}", name=st.name, node=st, module=m, cls=outer
                )
                self.functions[fi.qualname] = fi
                if outer is not None:
                    outer.methods[st.name] = fi
                else:
                    m.functions[st.name] = fi
                self._collect_nested(m, fi)
            elif isinstance(st, ast.ClassDef):
                ci = ClassInfo(
                    qualname=f"{prefix}.{st.name}", name=st.name, node=st, module=m, outer=outer
                )
                self.classes[ci.qualname] = ci
                if outer is not None:
                    outer.nested[st.name] = ci
                else:
                    m.classes[st.name] = ci
                self._collect_body(m, st.body, ci)
            elif isinstance(st, ast.AnnAssign) and isinstance(st.target, ast.Name):
                if outer is not None:
                    outer.fields[st.target.id] = FieldInfo(
                        st.target.id, st.annotation, st.value, st, outer
                    )
                else:
                    if st.value is not None:
                        m.assigns[st.target.id] = st.value
                        m.assign_nodes[st.target.id] = st
            elif isinstance(st, ast.Assign):
                for t in st.targets:
                    if isinstance(t, ast.Name):
                        if outer is not None:
                            outer.assigns[t.id] = st.value
                        else:
                            m.assigns[t.id] = st.value
                            m.assign_nodes[t.id] = st
            elif isinstance(st, (ast.If, ast.Try)) and outer is None:
                # module-level conditional definitions (TYPE_CHECKING blocks etc.)
                for sub in ast.iter_child_nodes(st):
                    if isinstance(sub, (ast.FunctionDef, ast.ClassDef)):
                        self._collect_body(m, [sub], None)

    def _collect_nested(self, m: Module, outer_fn: FuncInfo) -> None:
        "functions defined inside functions (decorator wrappers, local helpers)"
        stack = list(outer_fn.node.body)
        while stack:
            st = stack.pop()
            if isinstance(st, (ast.FunctionDef, ast.AsyncFunctionDef)):
                fi = FuncInfo(qualname=f"{outer_fn.qualname}.{st.name}", name=st.name, node=st, module=m,
                              cls=outer_fn.cls, parent=outer_fn)
                self.functions[fi.qualname] = fi
                outer_fn.nested[st.name] = fi
                self._collect_nested(m, fi)
            elif isinstance(st, ast.ClassDef):
                continue
            else:
                stack.extend(ch for ch in ast.iter_child_nodes(st) if isinstance(ch, ast.stmt))

    def _resolve_class(self, c: ClassInfo) -> None:
        c.bases = []
        for b in c.node.bases:
            d = dotted_of(b)
            c.bases.append(self.resolve(c.module, d, c.outer) if d else ast.unparse(b))
        c.decorators = [self._decorator(c.module, d, c.outer) for d in c.node.decorator_list]
        for f in c.methods.values():
            f.decorators = [self._decorator(c.module, d, c) for d in f.node.decorator_list]

    def _decorator(self, m: Module, node: ast.expr, scope: ClassInfo | None) -> Decorator:
        call = node if isinstance(node, ast.Call) else None
        target = call.func if call else node
        d = dotted_of(target)
        return Decorator(self.resolve(m, d, scope) if d else ast.unparse(target), node, call)

    # ------------------------------------------------------------------ resolution
    def resolve(self, m: Module, dotted: str, scope: ClassInfo | None = None) -> str:
        """canonical dotted name of `dotted` as seen from module `m` (and class scope `scope`)

        follows import aliases and package re-exports; names defined in the package resolve to
        their defining qualname, external names keep their dotted import path
        """
        head, _, rest = dotted.partition(".")
        # class scopes, innermost first (nested namespace classes see their siblings)
        s = scope
        while s is not None:
            if head in s.nested:
                return self.canonical(s.nested[head].qualname + ("." + rest if rest else ""))
            if head in s.methods:
                return s.methods[head].qualname + ("." + rest if rest else "")
            s = s.outer
        if head in m.classes or head in m.functions or head in m.assigns:
            return self.canonical(f"{m.name}.{dotted}")
        if head in m.imports:
            return self.canonical(m.imports[head] + ("." + rest if rest else ""))
        return dotted

    def canonical(self, dotted: str) -> str:
        "follow re-exports: `maze_dataset.maze.LatticeMaze` -> `maze_dataset.maze.lattice_maze.LatticeMaze`"
        for _ in range(10):
            parts = dotted.split(".")
            changed = False
            for i in range(len(parts), 0, -1):
                mod = ".".join(parts[:i])
                if mod in self.modules and i < len(parts):
                    m = self.modules[mod]
                    nxt = parts[i]
                    if f"{mod}.{nxt}" in self.modules:
                        break
                    if (
                        nxt in m.imports
                        and nxt not in m.classes
                        and nxt not in m.functions
                        and nxt not in m.assigns  # a module-level assignment after the import re-binds the name (`random = random.Random(..)`)
                    ):
                        tgt = m.imports[nxt]
                        new = ".".join([tgt, *parts[i + 1 :]])
                        if new != dotted:
                            dotted = new
                            changed = True
                    break
            if not changed:
                break
        return dotted

    # ------------------------------------------------------------------ lookup
    def module(self, name: str) -> Module:
        if name not in self.modules:
            raise AnchorMissing(f"module {name} not found")
        self.consulted.add(self.modules[name].relpath)
        return self.modules[name]

    def func(self, qualname: str) -> FuncInfo:
        f = self.functions.get(qualname)
        if f is None:
            raise AnchorMissing(f"function {qualname} not found")
        self.consulted.add(f.relpath)
        return f

    def cls(self, qualname: str) -> ClassInfo:
        c = self.classes.get(qualname)
        if c is None:
            raise AnchorMissing(f"class {qualname} not found")
        self.consulted.add(c.relpath)
        return c

    def has_func(self, qualname: str) -> bool:
        return qualname in self.functions

    def module_assign(self, modname: str, name: str) -> ast.expr:
        m = self.module(modname)
        if name not in m.assigns:
            raise AnchorMissing(f"module-level name {modname}.{name} not found")
        return m.assigns[name]

    # ------------------------------------------------------------------ hierarchy
    def inline_module_constants(self, modname: str, expr: ast.expr, local_names: Iterable[str] = (), depth: int = 0) -> ast.expr:
        """copy of `expr` in which every name that has exactly one module-level assignment in `modname` (and is not a local of the
        using function, nor re-bound by a `global` statement anywhere in the module) is replaced by that assignment's value"""
        import copy as _copy

        m = self.module(modname)
        globs = {n for x in ast.walk(m.tree) if isinstance(x, ast.Global) for n in x.names}
        defs: dict[str, list[ast.expr]] = {}
        for st in m.tree.body:
            if isinstance(st, ast.Assign) and len(st.targets) == 1 and isinstance(st.targets[0], ast.Name):
                defs.setdefault(st.targets[0].id, []).append(st.value)
            elif isinstance(st, ast.AnnAssign) and isinstance(st.target, ast.Name) and st.value is not None:
                defs.setdefault(st.target.id, []).append(st.value)
        skip = set(local_names) | globs
        outer = self

        class T(ast.NodeTransformer):
            def visit_Name(s, n: ast.Name):
                if isinstance(n.ctx, ast.Load) and n.id not in skip and len(defs.get(n.id, [])) == 1 and depth < 4:
                    return outer.inline_module_constants(modname, _copy.deepcopy(defs[n.id][0]), local_names, depth + 1)
                return n
        return ast.fix_missing_locations(T().visit(_copy.deepcopy(expr)))

    def mro(self, c: ClassInfo) -> list[str]:
        "C3 linearisation; classes outside the package appear by dotted name"

        def lin(q: str, seen: tuple[str, ...]) -> list[str]:
            if q in seen:
                raise AnalysisError(f"inheritance cycle at {q}")
            ci = self.classes.get(q)
            if ci is None:
                return [q]
            seqs = [lin(b, seen + (q,)) for b in ci.bases] + [list(ci.bases)]
            out = [q]
            seqs = [s for s in seqs if s]
            while seqs:
                for s in seqs:
                    h = s[0]
                    if not any(h in t[1:] for t in seqs):
                        break
                else:
                    raise AnalysisError(f"no consistent MRO for {q}")
                out.append(h)
                seqs = [[x for x in s if x != h] for s in seqs]
                seqs = [s for s in seqs if s]
            return out

        return lin(c.qualname, ())

    def subclasses(self, qualname: str, direct: bool = False) -> list[ClassInfo]:
        out = []
        for c in self.classes.values():
            if c.qualname == qualname:
                continue
            if direct:
                if qualname in c.bases:
                    out.append(c)
            elif qualname in self.mro(c):
                out.append(c)
        return out

    def find_method(self, c: ClassInfo, name: str) -> FuncInfo | None:
        "first definition of `name` along the MRO (package classes only)"
        for q in self.mro(c):
            ci = self.classes.get(q)
            if ci is not None and name in ci.methods:
                self.consulted.add(ci.relpath)
                return ci.methods[name]
        return None

    def all_fields(self, c: ClassInfo) -> dict[str, FieldInfo]:
        "dataclass fields in dataclass order (base classes first, redefinitions keep position)"
        out: dict[str, FieldInfo] = {}
        for q in reversed(self.mro(c)):
            ci = self.classes.get(q)
            if ci is None:
                continue
            for n, f in ci.fields.items():
                out[n] = f
        return out

    def iter_functions(self) -> Iterator[FuncInfo]:
        return iter(self.functions.values())
