"""normalising front end: behaviour-preserving rewrites applied to every module's AST before it is indexed

Motivation (measured): 31 of the first 34 behaviour-preserving refactorings written by sub-agents made some rule
report; the rules compared shapes that refactorings change without changing behaviour.  Every rewrite below is
semantics-preserving by construction, so it can hide no defect; if a precondition is not met the code is left as
it is (and a rule may then report an unfamiliar shape).

Global (reference-free):
  G1  `match` over literal values            -> if / elif / else on `subject == value`
  G2  `if c: <exits> else: rest`              -> `if c: <exits>` ; rest          (else after return/raise/continue/break)
  G3  `if a: (if b: X)` without else branches -> `if a and b: X`

Reference-guided (reference/pinned_names.json lists, for the pinned tree, every function and its local names in
order of first binding; it is used only to decide *which* behaviour-preserving rewrite to apply):
  R1  a function that is new w.r.t. the reference and is called from known functions is inlined at its call sites
      (expression-bodied helpers; statement helpers; helpers whose returns are in tail / early-return position)
  R2  a local that is new w.r.t. the reference, has a single definition whose right-hand side is pure and built from
      names that are never re-bound or mutated in the function, is copy-propagated into its uses and dropped
  R3  remaining new locals are matched, in order of first binding, with the reference locals that disappeared
      (a rename): they are renamed back, provided the mapping is a bijection that restores the reference order
"""

from __future__ import annotations

import ast
import copy
import json
import os
from typing import Iterable

VERIF_DIR = os.path.dirname(os.path.dirname(os.path.abspath(__file__)))
_REF = None


def reference() -> dict:
    global _REF
    if _REF is None:
        p = os.path.join(VERIF_DIR, "reference", "pinned_names.json")
        _REF = json.load(open(p)) if os.path.exists(p) else {"functions": {}}
    return _REF


# ------------------------------------------------------------------------------------------------ helpers
def _exits(body: list[ast.stmt]) -> bool:
    "does the statement list always leave the enclosing block (return / raise / continue / break on every path)?"
    if not body:
        return False
    last = body[-1]
    if isinstance(last, (ast.Return, ast.Raise, ast.Continue, ast.Break)):
        return True
    if isinstance(last, ast.If) and last.orelse:
        return _exits(last.body) and _exits(last.orelse)
    return False


def _fix(node):
    return ast.fix_missing_locations(node)


class _Global(ast.NodeTransformer):
    def _block(self, body: list[ast.stmt]) -> list[ast.stmt]:
        out: list[ast.stmt] = []
        for st in body:
            st = self.visit(st)
            if isinstance(st, list):
                out.extend(st)
            elif st is not None:
                out.append(st)
        # G19: `xs.extend([E for v in I if C])` / `xs += [E for v in I if C]` -> `for v in I: if C: xs.append(E)`
        ext_: list[ast.stmt] = []
        for st in out:
            comp = None
            if isinstance(st, ast.Expr) and isinstance(st.value, ast.Call) and isinstance(st.value.func, ast.Attribute) and st.value.func.attr == "extend" \
                    and isinstance(st.value.func.value, ast.Name) and len(st.value.args) == 1 and not st.value.keywords:
                comp, acc = st.value.args[0], st.value.func.value.id
            elif isinstance(st, ast.AugAssign) and isinstance(st.op, ast.Add) and isinstance(st.target, ast.Name):
                comp, acc = st.value, st.target.id
            if isinstance(comp, (ast.ListComp, ast.GeneratorExp)) and len(comp.generators) == 1 and not comp.generators[0].is_async \
                    and not any(isinstance(x, ast.Name) and x.id == acc for x in ast.walk(comp)):
                g = comp.generators[0]
                app = ast.Expr(value=ast.Call(func=ast.Attribute(value=ast.Name(id=acc, ctx=ast.Load()), attr="append", ctx=ast.Load()), args=[comp.elt], keywords=[]))
                body = [app]
                if g.ifs:
                    body = [ast.If(test=g.ifs[0] if len(g.ifs) == 1 else ast.BoolOp(op=ast.And(), values=list(g.ifs)), body=[app], orelse=[])]
                loop = ast.For(target=g.target, iter=g.iter, body=body, orelse=[])
                for x in ast.walk(loop):
                    ast.copy_location(x, st)
                ext_.append(loop)
            else:
                ext_.append(st)
        out = ext_
        # G23: `d.update({'k1': v1, 'k2': v2})` (a literal with constant keys; pure values, or a single key) -> `d['k1'] = v1`; `d['k2'] = v2`;
        #      `d.update({})` is dropped.  (what binding `**kwargs` of an inlined helper to the call's keywords leaves behind)
        upd_: list[ast.stmt] = []
        for st in out:
            c_ = st.value if isinstance(st, ast.Expr) else None
            if isinstance(c_, ast.Call) and isinstance(c_.func, ast.Attribute) and c_.func.attr == "update" and len(c_.args) == 1 and not c_.keywords \
                    and isinstance(c_.args[0], ast.Dict) and all(isinstance(k_, ast.Constant) for k_ in c_.args[0].keys) and _is_pure(c_.func.value) \
                    and (len(c_.args[0].keys) <= 1 or all(_is_pure(v_) for v_ in c_.args[0].values)):
                d_ = c_.args[0]
                for k_, v_ in zip(d_.keys, d_.values):
                    tgt_ = ast.Subscript(value=copy.deepcopy(c_.func.value), slice=k_, ctx=ast.Store())
                    upd_.append(ast.fix_missing_locations(ast.copy_location(ast.Assign(targets=[tgt_], value=v_), st)))
                continue
            upd_.append(st)
        out = upd_
        # G14: `return A if c else B` -> `if c: return A` ; `return B`
        exp_: list[ast.stmt] = []
        for st in out:
            while isinstance(st, ast.Return) and isinstance(st.value, ast.IfExp):
                ie = st.value
                exp_.append(ast.copy_location(ast.If(test=ie.test, body=[ast.copy_location(ast.Return(value=ie.body), st)], orelse=[]), st))
                st = ast.copy_location(ast.Return(value=ie.orelse), st)
            exp_.append(st)
        out = exp_
        # G7: `a, b = x, y` -> `a = x`; `b = y` (no target occurs on the right-hand side)
        split: list[ast.stmt] = []
        for st in out:
            if isinstance(st, ast.Assign) and len(st.targets) == 1 and isinstance(st.targets[0], ast.Tuple) and isinstance(st.value, ast.Tuple) \
                    and len(st.targets[0].elts) == len(st.value.elts) and all(isinstance(t, ast.Name) for t in st.targets[0].elts):
                tnames = {t.id for t in st.targets[0].elts}
                rnames = {x.id for x in ast.walk(st.value) if isinstance(x, ast.Name)}
                if not (tnames & rnames) and not any(isinstance(x, ast.Call) for x in ast.walk(st.value)):
                    for t, v in zip(st.targets[0].elts, st.value.elts):
                        split.append(ast.copy_location(ast.Assign(targets=[t], value=v), st))
                    continue
            split.append(st)
        out = split
        # G5: `if t: X; continue` followed by the rest of a loop body -> `if t: X else: rest` (only when called for a loop body, see visit_For/While)
        if getattr(self, "_in_loop_body", False):
            for i, st in enumerate(out):
                if isinstance(st, ast.If) and not st.orelse and st.body and isinstance(st.body[-1], ast.Continue) and i + 1 < len(out) \
                        and not any(isinstance(x, (ast.Continue, ast.Break)) for s_ in st.body[:-1] for x in ast.walk(s_)):
                    rest = out[i + 1:]
                    st.body = st.body[:-1] or [ast.copy_location(ast.Pass(), st)]
                    st.orelse = self._g5(rest)
                    out = out[:i + 1]
                    break
        # G6a: `else: pass` is dropped; `if c: pass else: Y` -> `if not c: Y`
        for st in out:
            if isinstance(st, ast.If):
                if st.orelse and all(isinstance(x, ast.Pass) for x in st.orelse):
                    st.orelse = []
                if st.orelse and all(isinstance(x, ast.Pass) for x in st.body):
                    t = st.test
                    st.test = t.operand if isinstance(t, ast.UnaryOp) and isinstance(t.op, ast.Not) else ast.UnaryOp(op=ast.Not(), operand=t)
                    st.body, st.orelse = st.orelse, []
        # G6: `if not c: X else: Y` -> `if c: Y else: X`
        for st in out:
            if isinstance(st, ast.If) and st.orelse and isinstance(st.test, ast.UnaryOp) and isinstance(st.test.op, ast.Not) \
                    and not (len(st.orelse) == 1 and isinstance(st.orelse[0], ast.If)):
                st.test = st.test.operand
                st.body, st.orelse = st.orelse, st.body
        # G16: `if c: T = A else: T = B` (the same single target) -> `T = A if c else B`
        for k, st in enumerate(out):
            if isinstance(st, ast.If) and len(st.body) == 1 and len(st.orelse) == 1 and isinstance(st.body[0], ast.Assign) and isinstance(st.orelse[0], ast.Assign) \
                    and len(st.body[0].targets) == 1 and len(st.orelse[0].targets) == 1 and ast.dump(st.body[0].targets[0]) == ast.dump(st.orelse[0].targets[0]):
                out[k] = ast.copy_location(ast.Assign(targets=[st.body[0].targets[0]], value=ast.IfExp(test=st.test, body=st.body[0].value, orelse=st.orelse[0].value)), st)
        # G16b: several plain-name targets, the same ones in the same order in both arms, a pure test that reads none of them:
        #       `if c: a = A1; b = B1 else: a = A2; b = B2` -> `a = A1 if c else A2` ; `b = B1 if c else B2`
        k = 0
        while k < len(out):
            st = out[k]
            k += 1
            if not (isinstance(st, ast.If) and len(st.body) >= 2 and len(st.body) == len(st.orelse)):
                continue
            arms = []
            for blk in (st.body, st.orelse):
                arms.append([(b.targets[0].id, b.value) for b in blk if isinstance(b, ast.Assign) and len(b.targets) == 1 and isinstance(b.targets[0], ast.Name)])
            if len(arms[0]) != len(st.body) or len(arms[1]) != len(st.orelse) or [n for n, _ in arms[0]] != [n for n, _ in arms[1]]:
                continue
            names = [n for n, _ in arms[0]]
            if len(set(names)) != len(names) or not _is_pure(st.test):
                continue
            reads = {x.id for x in ast.walk(st.test) if isinstance(x, ast.Name)} | {x.id for _, v in arms[0] + arms[1] for x in ast.walk(v) if isinstance(x, ast.Name)}
            if reads & set(names):
                continue
            new_sts = [ast.copy_location(ast.Assign(targets=[ast.Name(id=n, ctx=ast.Store())], value=ast.IfExp(test=copy.deepcopy(st.test), body=a, orelse=b)), st)
                       for (n, a), (_, b) in zip(arms[0], arms[1])]
            for ns in new_sts:
                ast.fix_missing_locations(ns)
            out[k - 1:k] = new_sts
            k += len(new_sts) - 1
        # G2: else after an exiting body is hoisted
        res: list[ast.stmt] = []
        i = 0
        while i < len(out):
            st = out[i]
            if isinstance(st, ast.If) and st.orelse and _exits(st.body) and not (len(st.orelse) == 1 and isinstance(st.orelse[0], ast.If) and False):
                hoisted = st.orelse
                st.orelse = []
                res.append(st)
                res.extend(self._block_no_visit(hoisted))
            else:
                res.append(st)
            i += 1
        # G12: `x = A` (constants) directly followed by `if c: x = B` (only such assignments, no else) -> `x = B if c else A`
        i = 0
        while i < len(res):
            st = res[i]
            if isinstance(st, ast.If) and not st.orelse and st.body and all(
                    isinstance(b, ast.Assign) and len(b.targets) == 1 and isinstance(b.targets[0], ast.Name) for b in st.body) and _is_pure(st.test):
                names = [b.targets[0].id for b in st.body]
                k = len(names)
                prev = res[i - k:i] if i >= k else []
                tnames = {x.id for x in ast.walk(st.test) if isinstance(x, ast.Name)}

                def tgt_val(p):
                    if isinstance(p, ast.Assign) and len(p.targets) == 1 and isinstance(p.targets[0], ast.Name):
                        return p.targets[0].id, p.value
                    if isinstance(p, ast.AnnAssign) and isinstance(p.target, ast.Name) and p.value is not None:
                        return p.target.id, p.value
                    return None, None
                inits = dict(tgt_val(p) for p in prev)
                body_reads = {x.id for b in st.body for x in ast.walk(b.value) if isinstance(x, ast.Name)}
                def _simple_init(v):
                    "a constant or a fresh empty container: evaluating it has no effect and its value is unobservable when overwritten"
                    if isinstance(v, ast.Constant):
                        return True
                    if isinstance(v, (ast.List, ast.Tuple, ast.Set)) and not v.elts:
                        return True
                    if isinstance(v, ast.Dict) and not v.keys:
                        return True
                    return isinstance(v, ast.Call) and isinstance(v.func, ast.Name) and v.func.id in ("list", "dict", "tuple", "set") and not v.args and not v.keywords
                if len(prev) == k and len(set(names)) == k and set(inits) == set(names) and all(_simple_init(v) for v in inits.values()) \
                        and not (set(names) & tnames) and not (set(names) & body_reads):
                    new_sts = []
                    for b in st.body:
                        new_sts.append(ast.copy_location(ast.Assign(targets=[b.targets[0]], value=ast.IfExp(test=copy.deepcopy(st.test), body=b.value, orelse=inits[b.targets[0].id])), b))
                    res[i - k:i + 1] = new_sts
                    i = i - k + len(new_sts)
                    continue
            i += 1
        # G8: `for T in I: if C: return <b>` directly followed by `return <not b>` -> `return any/all(... for T in I)`
        for i in range(len(res) - 1):
            lp, nxt = res[i], res[i + 1]
            if isinstance(lp, ast.For) and not lp.orelse and len(lp.body) == 1 and isinstance(lp.body[0], ast.If) and not lp.body[0].orelse \
                    and len(lp.body[0].body) == 1 and isinstance(lp.body[0].body[0], ast.Return) and isinstance(nxt, ast.Return) \
                    and isinstance(lp.body[0].body[0].value, ast.Constant) and isinstance(nxt.value, ast.Constant) \
                    and isinstance(lp.body[0].body[0].value.value, bool) and isinstance(nxt.value.value, bool) \
                    and lp.body[0].body[0].value.value is not nxt.value.value:
                found = lp.body[0].body[0].value.value
                test = lp.body[0].test
                # a conjunction `c1 and ... and cn` splits into the filter c1..c(n-1) and the element test cn
                ifs_ = []
                if isinstance(test, ast.BoolOp) and isinstance(test.op, ast.And) and len(test.values) >= 2:
                    ifs_ = [test.values[0]] if len(test.values) == 2 else [ast.BoolOp(op=ast.And(), values=test.values[:-1])]
                    test = test.values[-1]
                if found:  # any
                    elt, fn = test, "any"
                else:  # all(not C)
                    elt = test.operand if isinstance(test, ast.UnaryOp) and isinstance(test.op, ast.Not) else ast.UnaryOp(op=ast.Not(), operand=test)
                    fn = "all"
                gen = ast.GeneratorExp(elt=elt, generators=[ast.comprehension(target=lp.target, iter=lp.iter, ifs=ifs_, is_async=0)])
                ret = ast.copy_location(ast.Return(value=ast.Call(func=ast.Name(id=fn, ctx=ast.Load()), args=[gen], keywords=[])), lp)
                return res[:i] + [ret] + res[i + 2:]
        # G17: consecutive `if A: X` ; `if B: X` with the same exiting body X (no else) -> `if A or B: X`
        k = 0
        while k + 1 < len(res):
            a_, b_ = res[k], res[k + 1]
            if isinstance(a_, ast.If) and isinstance(b_, ast.If) and not a_.orelse and not b_.orelse and _exits(a_.body) \
                    and [ast.dump(x) for x in a_.body] == [ast.dump(x) for x in b_.body]:
                vals = []
                for t in (a_.test, b_.test):
                    vals.extend(t.values if isinstance(t, ast.BoolOp) and isinstance(t.op, ast.Or) else [t])
                a_.test = ast.BoolOp(op=ast.Or(), values=vals)
                del res[k + 1]
                continue
            k += 1
        # G18: `if c: return <complex>` ; `return <constant | NotImplemented>` -> guard-clause form `if not c: return <constant>` ; `return <complex>`
        if len(res) >= 2 and isinstance(res[-1], ast.Return) and isinstance(res[-2], ast.If) and not res[-2].orelse and len(res[-2].body) == 1 \
                and isinstance(res[-2].body[0], ast.Return):
            simple = lambda v: v is None or isinstance(v, ast.Constant) or (isinstance(v, ast.Name) and v.id == "NotImplemented")
            a_, b_ = res[-2].body[0].value, res[-1].value
            if simple(b_) and not simple(a_):
                t = res[-2].test
                res[-2].test = t.operand if isinstance(t, ast.UnaryOp) and isinstance(t.op, ast.Not) else ast.UnaryOp(op=ast.Not(), operand=t)
                res[-2].body[0].value, res[-1].value = b_, a_
        # G21b: search loop with `else`:  `for T in I: if C: break` `else: X`  ->  `if not any(C for T in I): X`  (the body is a tree of ifs whose
        #       leaves are a bare `break`; the else block runs exactly when no element satisfied a leaf's path condition)
        def _found_break(stmts):
            if len(stmts) == 1 and isinstance(stmts[0], ast.Break):
                return True
            alts = []
            for s_ in stmts:
                if isinstance(s_, ast.Pass):
                    continue
                if not isinstance(s_, ast.If):
                    return None
                b_, o_ = _found_break(s_.body), _found_break(s_.orelse) if s_.orelse else False
                if b_ is None or o_ is None:
                    return None
                for cond_, sub_ in ((s_.test, b_), (ast.UnaryOp(op=ast.Not(), operand=copy.deepcopy(s_.test)), o_)):
                    if sub_ is False:
                        continue
                    if sub_ is True:
                        alts.append(cond_)
                    else:
                        vals = (cond_.values if isinstance(cond_, ast.BoolOp) and isinstance(cond_.op, ast.And) else [cond_]) + \
                               (sub_.values if isinstance(sub_, ast.BoolOp) and isinstance(sub_.op, ast.And) else [sub_])
                        alts.append(ast.BoolOp(op=ast.And(), values=list(vals)))
            if not alts:
                return False
            return alts[0] if len(alts) == 1 else ast.BoolOp(op=ast.Or(), values=alts)
        for j_, lp_ in enumerate(res):
            if isinstance(lp_, ast.For) and lp_.orelse and lp_.body:
                c_ = _found_break(lp_.body)
                if c_ in (None, True, False):
                    continue
                found_ = ast.Call(func=ast.Name(id="any", ctx=ast.Load()), args=[ast.GeneratorExp(elt=c_, generators=[
                    ast.comprehension(target=lp_.target, iter=lp_.iter, ifs=[], is_async=0)])], keywords=[])
                new_if_ = ast.If(test=ast.UnaryOp(op=ast.Not(), operand=found_), body=lp_.orelse, orelse=[])
                ast.copy_location(new_if_, lp_)
                ast.fix_missing_locations(new_if_)
                res[j_] = new_if_
        # G21: search loop with a flag:  `f = True` ; `for T in I: if C: f = False; break` ; `if f: X`   (f used nowhere else in the block)
        #      -> `if not any(C for T in I): X`        (and the dual with f = False / f = True / `if not f`)
        j = 0
        while j + 2 < len(res) + 0:
            a, lp, use = res[j], res[j + 1], res[j + 2]
            j += 1
            a_t = a.targets[0] if isinstance(a, ast.Assign) and len(a.targets) == 1 else (a.target if isinstance(a, ast.AnnAssign) and a.value is not None else None)
            if not (isinstance(a_t, ast.Name) and isinstance(a.value, ast.Constant) and isinstance(a.value.value, bool)):
                continue
            fl, init = a_t.id, a.value.value
            if not (isinstance(lp, ast.For) and not lp.orelse and lp.body):
                continue

            def _found(stmts):
                """the condition under which a tree of ifs reaches one of its leaves `f = <not init>; break` (None: some other statement
                occurs).  a sequence is the disjunction of its members: a later member is only evaluated when the earlier ones did not
                find anything, which is what `or` does"""
                if len(stmts) == 2 and isinstance(stmts[1], ast.Break) and isinstance(stmts[0], ast.Assign) and len(stmts[0].targets) == 1 \
                        and isinstance(stmts[0].targets[0], ast.Name) and stmts[0].targets[0].id == fl \
                        and isinstance(stmts[0].value, ast.Constant) and stmts[0].value.value is (not init):
                    return True
                alts = []
                for s_ in stmts:
                    if isinstance(s_, ast.Pass):
                        continue
                    if not isinstance(s_, ast.If):
                        return None
                    b_, o_ = _found(s_.body), _found(s_.orelse) if s_.orelse else False
                    if b_ is None or o_ is None:
                        return None
                    for cond_, sub_ in ((s_.test, b_), (ast.UnaryOp(op=ast.Not(), operand=copy.deepcopy(s_.test)), o_)):
                        if sub_ is False:
                            continue
                        if sub_ is True:
                            alts.append(cond_)
                        else:
                            vals = (cond_.values if isinstance(cond_, ast.BoolOp) and isinstance(cond_.op, ast.And) else [cond_]) + \
                                   (sub_.values if isinstance(sub_, ast.BoolOp) and isinstance(sub_.op, ast.And) else [sub_])
                            alts.append(ast.BoolOp(op=ast.And(), values=list(vals)))
                if not alts:
                    return False
                return alts[0] if len(alts) == 1 else ast.BoolOp(op=ast.Or(), values=alts)
            cond_found = _found(lp.body)
            if cond_found in (None, True, False):
                continue
            inner = ast.If(test=cond_found, body=[], orelse=[])
            if not (isinstance(use, ast.If) and not use.orelse):
                continue
            t = use.test
            pos = isinstance(t, ast.Name) and t.id == fl
            neg = isinstance(t, ast.UnaryOp) and isinstance(t.op, ast.Not) and isinstance(t.operand, ast.Name) and t.operand.id == fl
            if not (pos or neg):
                continue
            others = [x for st_ in (res[:j - 1] + res[j + 2:]) for x in ast.walk(st_) if isinstance(x, ast.Name) and x.id == fl]
            in_body = [x for st_ in use.body for x in ast.walk(st_) if isinstance(x, ast.Name) and x.id == fl]
            in_test = [x for x in ast.walk(inner.test) if isinstance(x, ast.Name) and x.id == fl]
            if others or in_body or in_test:
                continue
            found = ast.Call(func=ast.Name(id="any", ctx=ast.Load()), args=[ast.GeneratorExp(elt=inner.test, generators=[
                ast.comprehension(target=lp.target, iter=lp.iter, ifs=[], is_async=0)])], keywords=[])
            # the flag ends up == init iff nothing was found; `if f` (pos) runs X iff f is true
            run_if_found = (pos and not init) or (neg and init)
            new_if = ast.If(test=found if run_if_found else ast.UnaryOp(op=ast.Not(), operand=found), body=use.body, orelse=[])
            ast.copy_location(new_if, a)
            ast.fix_missing_locations(new_if)
            res[j - 1:j + 2] = [new_if]
            j = max(j - 1, 0)
        # G28: `x = <freshly built list>` ; `x.sort(**kw)`  ->  `x = sorted(<that list>, **kw)`   (list(...), a list display or comprehension: nobody else holds it)
        j = 0
        while j + 1 < len(res):
            a, b = res[j], res[j + 1]
            j += 1
            tg = a.targets[0] if isinstance(a, ast.Assign) and len(a.targets) == 1 else (a.target if isinstance(a, ast.AnnAssign) and a.value is not None else None)
            if not (isinstance(tg, ast.Name) and isinstance(b, ast.Expr) and isinstance(b.value, ast.Call) and isinstance(b.value.func, ast.Attribute)
                    and b.value.func.attr == "sort" and isinstance(b.value.func.value, ast.Name) and b.value.func.value.id == tg.id and not b.value.args):
                continue
            v = a.value
            fresh = isinstance(v, (ast.List, ast.ListComp)) or (isinstance(v, ast.Call) and isinstance(v.func, ast.Name) and v.func.id in ("list", "sorted"))
            if not fresh or any(isinstance(x, ast.Name) and x.id == tg.id for k_ in b.value.keywords for x in ast.walk(k_.value)):
                continue
            new_a = ast.copy_location(ast.Assign(targets=[ast.Name(id=tg.id, ctx=ast.Store())],
                                                 value=ast.Call(func=ast.Name(id="sorted", ctx=ast.Load()), args=[v], keywords=b.value.keywords)), a)
            ast.fix_missing_locations(new_a)
            res[j - 1:j + 1] = [new_a]
        # G10: `xs = []` ... `for T in I: [if C:] xs.append(E)` -> `xs = [E for T in I if C]` (nothing in between mentions xs)
        changed = True
        while changed:
            changed = False
            for j, lp in enumerate(res):
                conv = self._append_loop(lp)
                if conv is None:
                    continue
                name, comp = conv
                for i in range(j - 1, -1, -1):
                    st = res[i]
                    tgt = st.targets[0] if isinstance(st, ast.Assign) and len(st.targets) == 1 else (st.target if isinstance(st, ast.AnnAssign) and st.value is not None else None)
                    if isinstance(tgt, ast.Name) and tgt.id == name:
                        if isinstance(comp, ast.DictComp):
                            empty = isinstance(st.value, ast.Dict) and not st.value.keys or (isinstance(st.value, ast.Call) and isinstance(st.value.func, ast.Name)
                                                                                             and st.value.func.id == "dict" and not st.value.args and not st.value.keywords)
                        else:
                            empty = isinstance(st.value, ast.List) and not st.value.elts or (isinstance(st.value, ast.Call) and isinstance(st.value.func, ast.Name)
                                                                                              and st.value.func.id == "list" and not st.value.args and not st.value.keywords)
                        if empty:
                            new_st = copy.copy(st)
                            new_st.value = comp
                            ast.copy_location(new_st, lp)
                            res = res[:i] + res[i + 1:j] + [new_st] + res[j + 1:]
                            changed = True
                        break
                    if any(isinstance(x, ast.Name) and x.id == name for x in ast.walk(st)):
                        break
                if changed:
                    break
        return res

    @staticmethod
    def _append_loop(lp):
        "(list name, equivalent list comprehension) for `for T in I: [if C:] xs.append(E)`"
        if not (isinstance(lp, ast.For) and not lp.orelse and len(lp.body) == 1):
            return None
        st = lp.body[0]
        ifs = []
        if isinstance(st, ast.If) and not st.orelse and len(st.body) == 1:
            ifs = [st.test]
            st = st.body[0]
        if isinstance(st, ast.Assign) and len(st.targets) == 1 and isinstance(st.targets[0], ast.Subscript) and isinstance(st.targets[0].value, ast.Name) \
                and not isinstance(st.targets[0].slice, ast.Slice):
            # G10b: `d = {}` ... `for T in I: [if C:] d[K] = V` -> `d = {K: V for T in I if C}` (later keys overwrite earlier ones in both spellings)
            name = st.targets[0].value.id
            for part in (lp.iter, lp.target, st.targets[0].slice, st.value, *ifs):
                if any(isinstance(x, ast.Name) and x.id == name for x in ast.walk(part)):
                    return None
            return name, ast.DictComp(key=st.targets[0].slice, value=st.value, generators=[ast.comprehension(target=lp.target, iter=lp.iter, ifs=ifs, is_async=0)])
        if not (isinstance(st, ast.Expr) and isinstance(st.value, ast.Call) and isinstance(st.value.func, ast.Attribute) and st.value.func.attr == "append"
                and isinstance(st.value.func.value, ast.Name) and len(st.value.args) == 1 and not st.value.keywords):
            return None
        name = st.value.func.value.id
        for part in (lp.iter, lp.target, st.value.args[0], *ifs):
            if any(isinstance(x, ast.Name) and x.id == name for x in ast.walk(part)):
                return None
        comp = ast.ListComp(elt=st.value.args[0], generators=[ast.comprehension(target=lp.target, iter=lp.iter, ifs=ifs, is_async=0)])
        return name, comp

    def _g5(self, rest: list[ast.stmt]) -> list[ast.stmt]:
        for i, st in enumerate(rest):
            if isinstance(st, ast.If) and not st.orelse and st.body and isinstance(st.body[-1], ast.Continue) and i + 1 < len(rest) \
                    and not any(isinstance(x, (ast.Continue, ast.Break)) for s_ in st.body[:-1] for x in ast.walk(s_)):
                st.body = st.body[:-1] or [ast.copy_location(ast.Pass(), st)]
                st.orelse = self._g5(rest[i + 1:])
                return rest[:i + 1]
        return rest

    def _loop(self, node):
        # the body of a loop: a trailing `continue` is redundant, and guard clauses ending in `continue` become if/else
        prev = getattr(self, "_in_loop_body", False)
        self._in_loop_body = True
        body = self._block(node.body)
        self._in_loop_body = prev
        while body and isinstance(body[-1], ast.Continue) and len(body) > 1:
            body = body[:-1]
        node.body = body
        if node.orelse:
            node.orelse = self._block(node.orelse)
        return node

    def visit_For(self, node):
        return self._loop(node)

    def visit_While(self, node):
        return self._loop(node)

    def _block_no_visit(self, body):
        res = []
        for st in body:
            if isinstance(st, ast.If) and st.orelse and _exits(st.body):
                hoisted = st.orelse
                st.orelse = []
                res.append(st)
                res.extend(self._block_no_visit(hoisted))
            else:
                res.append(st)
        return res

    def generic_visit(self, node):
        if not isinstance(node, (ast.For, ast.While)):
            prev = getattr(self, "_in_loop_body", False)
            self._in_loop_body = False
            try:
                return self._generic(node)
            finally:
                self._in_loop_body = prev
        return self._generic(node)

    def _generic(self, node):
        for fld in ("body", "orelse", "finalbody"):
            v = getattr(node, fld, None)
            if isinstance(v, list) and v and isinstance(v[0], ast.stmt):
                setattr(node, fld, self._block(v))
        for h in getattr(node, "handlers", []) or []:
            h.body = self._block(h.body)
        for c in getattr(node, "cases", []) or []:
            c.body = self._block(c.body)
        # expressions are left alone
        return node

    def visit_FunctionDef(self, n):
        self.generic_visit(n)
        # G13: in a function that only ever returns None: `if c: return` followed by the rest of the body -> `if not c: <rest>`
        vals = [r for r in _walk_fn(n) if isinstance(r, ast.Return)]
        if all(r.value is None or (isinstance(r.value, ast.Constant) and r.value.value is None) for r in vals) \
                and not any(isinstance(x, (ast.Yield, ast.YieldFrom)) for x in _walk_fn(n)):
            n.body = self._g13(n.body)
        return n

    visit_AsyncFunctionDef = visit_FunctionDef

    def _g13(self, body):
        for i, st in enumerate(body):
            if isinstance(st, ast.If) and not st.orelse and len(st.body) == 1 and isinstance(st.body[0], ast.Return) and i + 1 < len(body):
                rest = self._g13(body[i + 1:])
                t = st.test
                neg = t.operand if isinstance(t, ast.UnaryOp) and isinstance(t.op, ast.Not) else ast.UnaryOp(op=ast.Not(), operand=t)
                return body[:i] + [ast.copy_location(ast.If(test=neg, body=rest, orelse=[]), st)]
        # a trailing bare `return` is redundant
        if len(body) > 1 and isinstance(body[-1], ast.Return) and (body[-1].value is None):
            return body[:-1]
        return body

    def visit_Match(self, n: ast.Match):
        self.generic_visit(n)
        chain = []
        for c in n.cases:
            if c.guard is not None:
                return n
            p = c.pattern
            if isinstance(p, ast.MatchValue):
                test = ast.Compare(left=copy.deepcopy(n.subject), ops=[ast.Eq()], comparators=[p.value])
            elif isinstance(p, ast.MatchSingleton):
                test = ast.Compare(left=copy.deepcopy(n.subject), ops=[ast.Is()], comparators=[ast.Constant(p.value)])
            elif isinstance(p, ast.MatchOr) and all(isinstance(q, ast.MatchValue) for q in p.patterns):
                test = ast.Compare(left=copy.deepcopy(n.subject), ops=[ast.In()], comparators=[ast.Tuple(elts=[q.value for q in p.patterns], ctx=ast.Load())])
            elif isinstance(p, ast.MatchAs) and p.pattern is None:
                test = None
            else:
                return n
            chain.append((test, c.body))
        out: list[ast.stmt] = []
        for test, body in reversed(chain):
            if test is None:
                out = list(body)
            else:
                node = ast.If(test=test, body=list(body), orelse=out)
                ast.copy_location(node, n)
                out = [node]
        return out if out else n

    def visit_If(self, n: ast.If):
        self.generic_visit(n)
        # G3: nested ifs without else on either level and nothing else in the outer body
        while not n.orelse and len(n.body) == 1 and isinstance(n.body[0], ast.If) and not n.body[0].orelse:
            inner = n.body[0]
            vals = []
            for t in (n.test, inner.test):
                if isinstance(t, ast.BoolOp) and isinstance(t.op, ast.And):
                    vals.extend(t.values)
                else:
                    vals.append(t)
            n.test = ast.BoolOp(op=ast.And(), values=vals)
            n.body = inner.body
        return n


# ------------------------------------------------------------------------------------------------ locals
def _walk_fn(fn: ast.AST):
    "walk a function body without entering nested function / class definitions"
    stack = list(ast.iter_child_nodes(fn))
    while stack:
        n = stack.pop()
        if isinstance(n, (ast.FunctionDef, ast.AsyncFunctionDef, ast.ClassDef)):
            continue
        yield n
        stack.extend(ast.iter_child_nodes(n))


def local_names(fn: ast.FunctionDef) -> list[str]:
    "names bound in the function (parameters first), in order of first binding position"
    a = fn.args
    params = [x.arg for x in [*a.posonlyargs, *a.args, *a.kwonlyargs]] + ([a.vararg.arg] if a.vararg else []) + ([a.kwarg.arg] if a.kwarg else [])
    seen = {}
    for n in _walk_fn(fn):
        if isinstance(n, ast.Name) and isinstance(n.ctx, ast.Store):
            key = (getattr(n, "lineno", 10**9), getattr(n, "col_offset", 0))
            if n.id not in seen or key < seen[n.id]:
                seen[n.id] = key
        elif isinstance(n, ast.ExceptHandler) and n.name:
            seen.setdefault(n.name, (n.lineno, n.col_offset))
    ordered = [k for k, _ in sorted(seen.items(), key=lambda kv: kv[1]) if k not in params]
    return params + ordered


def _stores(fn: ast.FunctionDef, name: str) -> list[ast.AST]:
    return [n for n in _walk_fn(fn) if isinstance(n, ast.Name) and n.id == name and isinstance(n.ctx, (ast.Store, ast.Del))]


def _element_stored_only(fn: ast.FunctionDef) -> set[str]:
    "names whose only 'mutation' is element / attribute assignment (x[i] = v, x.a = v): their shape, length and identity are stable"
    MUT = {"append", "extend", "insert", "pop", "remove", "clear", "update", "setdefault", "sort", "reverse", "discard", "add", "popitem", "shuffle"}
    stored, other = set(), set()
    counts: dict[str, int] = {}
    for n in _walk_fn(fn):
        if isinstance(n, ast.Name) and isinstance(n.ctx, ast.Store):
            counts[n.id] = counts.get(n.id, 0) + 1
        if isinstance(n, ast.AugAssign):
            t = n.target
            if isinstance(t, ast.Name):
                other.add(t.id)
        if isinstance(n, (ast.Assign, ast.AnnAssign, ast.AugAssign)):
            tg = n.targets if isinstance(n, ast.Assign) else [n.target]
            for t in tg:
                for tt in (t.elts if isinstance(t, (ast.Tuple, ast.List)) else [t]):
                    if isinstance(tt, (ast.Attribute, ast.Subscript)):
                        b = tt
                        while isinstance(b, (ast.Attribute, ast.Subscript)):
                            b = b.value
                        if isinstance(b, ast.Name):
                            stored.add(b.id)
        if isinstance(n, ast.Call) and isinstance(n.func, ast.Attribute) and n.func.attr in MUT:
            b = n.func.value
            while isinstance(b, (ast.Attribute, ast.Subscript)):
                b = b.value
            if isinstance(b, ast.Name):
                other.add(b.id)
        if isinstance(n, (ast.For, ast.comprehension)):
            for t in ast.walk(n.target):
                if isinstance(t, ast.Name):
                    other.add(t.id)
    other |= {k for k, v in counts.items() if v > 1}
    return stored - other


def _shape_reads_only(rhs: ast.AST, names: set[str]) -> bool:
    "every occurrence of one of `names` in rhs is under `.shape` / `.dtype` / `.ndim` / len(...)"
    ok_ids = set()
    for n in ast.walk(rhs):
        if isinstance(n, ast.Attribute) and n.attr in ("shape", "dtype", "ndim", "size") and isinstance(n.value, ast.Name):
            ok_ids.add(id(n.value))
        if isinstance(n, ast.Call) and isinstance(n.func, ast.Name) and n.func.id == "len" and n.args and isinstance(n.args[0], ast.Name):
            ok_ids.add(id(n.args[0]))
    return all(id(n) in ok_ids for n in ast.walk(rhs) if isinstance(n, ast.Name) and n.id in names)


def _mutated_names(fn: ast.FunctionDef) -> set[str]:
    "names that are re-bound more than once, augmented, or the base of an attribute/subscript store or a mutating call"
    MUT = {"append", "extend", "insert", "pop", "remove", "clear", "update", "setdefault", "sort", "reverse", "discard", "add", "popitem", "shuffle"}
    out: set[str] = set()
    counts: dict[str, int] = {}
    for n in _walk_fn(fn):
        if isinstance(n, ast.Name) and isinstance(n.ctx, ast.Store):
            counts[n.id] = counts.get(n.id, 0) + 1
        if isinstance(n, ast.AugAssign):
            t = n.target
            while isinstance(t, (ast.Attribute, ast.Subscript)):
                t = t.value
            if isinstance(t, ast.Name):
                out.add(t.id)
        if isinstance(n, (ast.Assign, ast.AnnAssign, ast.Delete)):
            tg = n.targets if isinstance(n, (ast.Assign, ast.Delete)) else [n.target]
            for t in tg:
                for tt in (t.elts if isinstance(t, (ast.Tuple, ast.List)) else [t]):
                    if isinstance(tt, (ast.Attribute, ast.Subscript)):
                        b = tt
                        while isinstance(b, (ast.Attribute, ast.Subscript)):
                            b = b.value
                        if isinstance(b, ast.Name):
                            out.add(b.id)
        if isinstance(n, ast.Call) and isinstance(n.func, ast.Attribute) and n.func.attr in MUT:
            b = n.func.value
            while isinstance(b, (ast.Attribute, ast.Subscript)):
                b = b.value
            if isinstance(b, ast.Name):
                out.add(b.id)
        if isinstance(n, (ast.For, ast.comprehension)):
            for t in ast.walk(n.target):
                if isinstance(t, ast.Name):
                    counts[t.id] = counts.get(t.id, 0) + 1  # loop variables are re-bound every iteration
    out |= {k for k, v in counts.items() if v > 1}
    return out


_PURE_CALLS = {"len", "int", "float", "str", "bool", "tuple", "list", "set", "dict", "max", "min", "sum", "abs", "range", "sorted", "enumerate", "zip",
               "isinstance", "getattr", "hasattr", "type", "repr", "np.array", "np.abs", "np.maximum", "np.minimum", "np.prod", "np.sum", "np.argmax",
               "np.asarray", "np.all", "np.any", "np.cumsum", "np.arange", "np.zeros", "np.ones", "np.full", "np.logical_not", "np.logical_or",
               "np.percentile", "np.linalg.norm", "np.s_", "Path", "np.where", "np.column_stack", "np.stack", "np.vstack", "np.pad", "np.repeat"}


def _dotted(n: ast.AST) -> str | None:
    parts = []
    while isinstance(n, ast.Attribute):
        parts.append(n.attr)
        n = n.value
    if isinstance(n, ast.Name):
        parts.append(n.id)
        return ".".join(reversed(parts))
    return None


def _is_pure(e: ast.AST) -> bool:
    for n in ast.walk(e):
        if isinstance(n, ast.Call):
            d = _dotted(n.func)
            if d in _PURE_CALLS:
                continue
            # numpy / math functions other than the in-place and random ones
            if d and d.split(".")[0] in ("np", "numpy", "math") and len(d.split(".")) == 2 and d.split(".")[1] not in (
                    "put", "copyto", "fill_diagonal", "place", "putmask", "save", "savez", "load", "seterr", "random", "shuffle", "fromfile", "resize"):
                if not any(k.arg == "out" for k in n.keywords):
                    continue
            # method calls on values: pure if the method name is a known non-mutating one
            if isinstance(n.func, ast.Attribute) and n.func.attr in ("copy", "all", "any", "sum", "astype", "items", "keys", "values", "get", "tobytes", "ravel",
                                                                      "removeprefix", "split", "strip", "join", "format", "startswith", "endswith", "serialize",
                                                                      "to_fname", "stable_hash_cfg", "exists", "as_posix", "max", "min", "argmax", "tolist"):
                continue
            if d in ("stable_hash", "json.dumps", "shorten_numerical_to_str", "sanitize_fname"):
                continue
            return False
        if isinstance(n, (ast.Await, ast.Yield, ast.YieldFrom, ast.NamedExpr, ast.Lambda)):
            return False
    return True


class _Subst(ast.NodeTransformer):
    def __init__(self, mapping: dict[str, ast.AST]) -> None:
        self.m = mapping

    def visit_Name(self, n: ast.Name):
        if isinstance(n.ctx, ast.Load) and n.id in self.m:
            return copy.deepcopy(self.m[n.id])
        return n


class _Rename(ast.NodeTransformer):
    def __init__(self, mapping: dict[str, str]) -> None:
        self.m = mapping

    def visit_Name(self, n: ast.Name):
        if n.id in self.m:
            n.id = self.m[n.id]
        return n

    def visit_arg(self, n: ast.arg):
        if n.arg in self.m:
            n.arg = self.m[n.arg]
        return n

    def visit_ExceptHandler(self, n: ast.ExceptHandler):
        self.generic_visit(n)
        if n.name in self.m:
            n.name = self.m[n.name]
        return n

    def visit_FunctionDef(self, n):  # do not descend into nested defs' own scopes (their free variables are still renamed)
        self.generic_visit(n)
        return n

    def visit_keyword(self, n: ast.keyword):
        self.generic_visit(n)
        return n


def _mutates(stmts: list[ast.stmt], names: set[str]) -> bool:
    mod = ast.Module(body=list(stmts), type_ignores=[])
    fake = ast.FunctionDef(name="_", args=ast.arguments(posonlyargs=[], args=[], kwonlyargs=[], kw_defaults=[], defaults=[]), body=list(stmts), decorator_list=[])
    m = set()
    for n in ast.walk(mod):
        if isinstance(n, ast.Name) and isinstance(n.ctx, (ast.Store, ast.Del)) and n.id in names:
            return True
    MUT = {"append", "extend", "insert", "pop", "remove", "clear", "update", "setdefault", "sort", "reverse", "discard", "add", "popitem", "shuffle"}
    for n in ast.walk(mod):
        if isinstance(n, ast.Call) and isinstance(n.func, ast.Attribute) and n.func.attr in MUT:
            b = n.func.value
            while isinstance(b, (ast.Attribute, ast.Subscript)):
                b = b.value
            if isinstance(b, ast.Name) and b.id in names:
                return True
        if isinstance(n, (ast.Assign, ast.AugAssign, ast.AnnAssign)):
            tg = n.targets if isinstance(n, ast.Assign) else [n.target]
            for t in tg:
                b = t
                while isinstance(b, (ast.Attribute, ast.Subscript)):
                    b = b.value
                if isinstance(b, ast.Name) and b.id in names and not isinstance(t, ast.Name):
                    return True
    return False


def _no_intervening_mutation(blk: list[ast.stmt], st: ast.stmt, name: str, clash: set[str]) -> bool:
    i = blk.index(st)
    last = None
    for k in range(i + 1, len(blk)):
        if any(isinstance(n, ast.Name) and n.id == name and isinstance(n.ctx, ast.Load) for n in ast.walk(blk[k])):
            last = k
    if last is None:
        return False
    # uses outside this block?  (then the definition does not reach them in a way we can see)
    if _mutates(blk[i + 1:last], clash):
        return False
    tail = blk[last]
    if isinstance(tail, (ast.If, ast.While)):
        uses_in_test = any(isinstance(n, ast.Name) and n.id == name for n in ast.walk(tail.test))
        uses_in_body = any(isinstance(n, ast.Name) and n.id == name for b in (tail.body, tail.orelse) for s_ in b for n in ast.walk(s_))
        if isinstance(tail, ast.If) and uses_in_test and not uses_in_body:
            return True
    if isinstance(tail, (ast.Assign, ast.AnnAssign, ast.AugAssign)) and getattr(tail, "value", None) is not None:
        # the targets are bound after the value has been evaluated: only mutations inside the value expression matter
        return not _mutates([ast.Expr(value=tail.value)], clash)
    return not _mutates([tail], clash)


def _rebound_names(fn: ast.FunctionDef) -> set[str]:
    "names bound more than once (assignment, augmented assignment, loop / comprehension targets count as repeated binding)"
    counts: dict[str, int] = {}
    out: set[str] = set()
    for n in _walk_fn(fn):
        if isinstance(n, ast.Name) and isinstance(n.ctx, ast.Store):
            counts[n.id] = counts.get(n.id, 0) + 1
        if isinstance(n, ast.AugAssign) and isinstance(n.target, ast.Name):
            out.add(n.target.id)
        if isinstance(n, (ast.For, ast.comprehension)):
            for t in ast.walk(n.target):
                if isinstance(t, ast.Name):
                    out.add(t.id)
    return out | {k for k, v in counts.items() if v > 1}


def _attr_reassigned(fn: ast.FunctionDef, chain: str) -> bool:
    "is any prefix `a.b` (b an attribute) of the dotted chain the target of an assignment / deletion in the function?"
    parts = chain.split(".")
    prefixes = {".".join(parts[:i]) for i in range(2, len(parts) + 1)}
    for n in _walk_fn(fn):
        tg = []
        if isinstance(n, ast.Assign):
            tg = n.targets
        elif isinstance(n, (ast.AnnAssign, ast.AugAssign)):
            tg = [n.target]
        elif isinstance(n, ast.Delete):
            tg = n.targets
        for t in tg:
            for tt in (t.elts if isinstance(t, (ast.Tuple, ast.List)) else [t]):
                if isinstance(tt, ast.Attribute) and _dotted(tt) in prefixes:
                    return True
                # maze.__dict__["generation_meta"] = ...
                if isinstance(tt, ast.Subscript) and isinstance(tt.value, ast.Attribute) and tt.value.attr == "__dict__" and isinstance(tt.slice, ast.Constant):
                    if f"{_dotted(tt.value.value)}.{tt.slice.value}" in prefixes:
                        return True
    return False


def _propagate_new_locals(fn: ast.FunctionDef, ref_locals: list[str], log: list[str]) -> None:
    "R2 (in place)"
    for _ in range(8):
        cur = local_names(fn)
        new = [n for n in cur if n not in ref_locals]
        if not new:
            return
        mutated = _mutated_names(fn)
        progressed = False
        rebound = _rebound_names(fn)
        for name in new:
            alias_only = False
            if name in mutated:
                if name in rebound:
                    continue
                alias_only = True  # only element stores / mutating calls through the name: fine if it is an alias of a reference chain
            defs = []
            holder = None
            for parent in ast.walk(fn):
                for fld in ("body", "orelse", "finalbody"):
                    blk = getattr(parent, fld, None)
                    if isinstance(blk, list):
                        for st in blk:
                            if isinstance(st, (ast.Assign, ast.AnnAssign)) and getattr(st, "value", None) is not None:
                                tg = st.targets if isinstance(st, ast.Assign) else [st.target]
                                if len(tg) == 1 and isinstance(tg[0], ast.Name) and tg[0].id == name:
                                    defs.append((blk, st))
            if len(defs) != 1 or len(_stores(fn, name)) != 1:
                continue
            blk, st = defs[0]
            rhs = st.value
            if not _is_pure(rhs):
                continue
            if alias_only:
                # `v = a.b.c` (no calls, no subscripts): v is the same object as a.b.c as long as neither `a` is re-bound nor `a.b` / `a.b.c` re-assigned
                chain = _dotted(rhs)
                if chain is None or chain.split(".")[0] in rebound or _attr_reassigned(fn, chain):
                    continue
            used = {x.id for x in ast.walk(rhs) if isinstance(x, ast.Name)}
            if name in used:
                continue
            clash = (used & mutated) if not alias_only else (used & rebound)
            if clash and not (clash <= _element_stored_only(fn) and _shape_reads_only(rhs, clash)):
                # still safe when nothing between the definition and its (same-block) uses re-binds or mutates those names
                if not _no_intervening_mutation(blk, st, name, clash):
                    continue
            # every use must come after the definition in the same or a nested block (definition dominates uses): require the
            # definition to sit in the function's top-level body or in the block that contains all uses
            uses = [n for n in _walk_fn(fn) if isinstance(n, ast.Name) and n.id == name and isinstance(n.ctx, ast.Load)]
            if not uses:
                continue
            if any((u.lineno, u.col_offset) < (st.lineno, st.col_offset) for u in uses):
                continue
            holder_ok = blk is fn.body or all(any(u in list(ast.walk(s)) for s in blk[blk.index(st) + 1:]) for u in uses)
            if not holder_ok:
                continue
            blk.remove(st)
            if not blk:
                blk.append(ast.copy_location(ast.Pass(), st))
            _Subst({name: rhs}).visit(fn)
            log.append(f"propagated new local `{name}`")
            progressed = True
        if not progressed:
            return


def _eval_order(e: ast.AST, once: bool, out: list) -> None:
    """post-order list of (node, evaluated-unconditionally-exactly-once) following Python's evaluation order"""
    def go(x, o=once):
        if x is not None:
            _eval_order(x, o, out)
    if isinstance(e, ast.Call):
        go(e.func)
        for a in e.args:
            go(a)
        for k in e.keywords:
            go(k.value)
    elif isinstance(e, ast.BoolOp):
        go(e.values[0])
        for v in e.values[1:]:
            go(v, False)
    elif isinstance(e, ast.IfExp):
        go(e.test)
        go(e.body, False)
        go(e.orelse, False)
    elif isinstance(e, ast.Compare):
        go(e.left)
        go(e.comparators[0])
        for c in e.comparators[1:]:
            go(c, False)
    elif isinstance(e, (ast.ListComp, ast.SetComp, ast.GeneratorExp, ast.DictComp)):
        go(e.generators[0].iter)
        for x in ast.iter_child_nodes(e):
            if isinstance(x, ast.comprehension):
                for y in ast.iter_child_nodes(x):
                    if y is not e.generators[0].iter:
                        go(y, False)
            else:
                go(x, False)
    elif isinstance(e, ast.Lambda):
        go(e.body, False)
    elif isinstance(e, ast.Dict):
        for k, v in zip(e.keys, e.values):
            go(k)
            go(v)
    else:
        for x in ast.iter_child_nodes(e):
            if isinstance(x, (ast.expr, ast.keyword, ast.comprehension, ast.slice if hasattr(ast, "slice") else ast.expr)):
                go(x)
    out.append((e, once))


def _head_exprs(st: ast.stmt) -> list[ast.AST] | None:
    "the expressions of a statement that are evaluated first, unconditionally and once, in order"
    if isinstance(st, (ast.Return, ast.Expr)):
        return [st.value] if st.value is not None else []
    if isinstance(st, ast.Assign):
        return [st.value, *st.targets]
    if isinstance(st, ast.AnnAssign):
        return [st.value, st.target] if st.value is not None else None
    if isinstance(st, ast.AugAssign) and isinstance(st.target, ast.Name):
        return [st.value]
    if isinstance(st, ast.If):
        return [st.test]
    if isinstance(st, ast.For):
        return [st.iter]
    if isinstance(st, ast.Raise):
        return [st.exc] if st.exc is not None and st.cause is None else None
    if isinstance(st, ast.With) and len(st.items) == 1:
        return [st.items[0].context_expr]
    return None


def _forward_substitute_single_use(fn: ast.FunctionDef, ref_locals: list[str], log: list[str]) -> bool:
    """R2b (in place): `v = E` (v new w.r.t. the reference, bound once, read once) immediately followed by the statement T that reads
    it, where the read is evaluated unconditionally exactly once and every sub-expression of T evaluated before it is pure, is
    substituted into T.  E may have side effects: it is still evaluated at the same point of the effect order."""
    changed = False
    for _ in range(30):
        progressed = False
        new = [n for n in local_names(fn) if n not in ref_locals]
        if not new:
            break
        loads: dict[str, int] = {}
        stores: dict[str, int] = {}
        for n in ast.walk(fn):  # nested scopes included: a closure reading v counts as a use
            if isinstance(n, ast.Name):
                d = loads if isinstance(n.ctx, ast.Load) else stores
                d[n.id] = d.get(n.id, 0) + 1
        for parent in [fn, *_walk_fn(fn)]:
            for fld in ("body", "orelse", "finalbody"):
                blk = getattr(parent, fld, None)
                if not (isinstance(blk, list) and blk and isinstance(blk[0], ast.stmt)):
                    continue
                for i in range(len(blk) - 2, -1, -1):
                    st = blk[i]
                    if not (isinstance(st, (ast.Assign, ast.AnnAssign)) and getattr(st, "value", None) is not None):
                        continue
                    tg = st.targets if isinstance(st, ast.Assign) else [st.target]
                    if not (len(tg) == 1 and isinstance(tg[0], ast.Name)):
                        continue
                    v = tg[0].id
                    if v not in new or stores.get(v, 0) != 1 or loads.get(v, 0) != 1:
                        continue
                    if any(isinstance(x, ast.Name) and x.id == v for x in ast.walk(st.value)):
                        continue
                    if any(isinstance(x, (ast.Await, ast.Yield, ast.YieldFrom, ast.NamedExpr)) for x in ast.walk(st.value)):
                        continue
                    T = blk[i + 1]
                    heads = _head_exprs(T)
                    if heads is None:
                        continue
                    order: list = []
                    for h in heads:
                        _eval_order(h, True, order)
                    pos = [k for k, (x, o) in enumerate(order) if isinstance(x, ast.Name) and x.id == v and isinstance(x.ctx, ast.Load)]
                    if len(pos) != 1 or not order[pos[0]][1]:
                        continue
                    before = [x for x, o in order[:pos[0]]]
                    if any(isinstance(x, (ast.Await, ast.Yield, ast.YieldFrom, ast.NamedExpr)) for x in before):
                        continue
                    if any(isinstance(x, ast.Call) and not _is_pure(ast.Call(func=x.func, args=[], keywords=[])) for x in before):
                        continue
                    # names read by E must not be re-bound by T before the use (walrus excluded above; targets are bound after the value)
                    use = order[pos[0]][0]
                    if isinstance(T, (ast.Assign, ast.AnnAssign)) and not any(use is y for y in ast.walk(T.value)):
                        continue  # use inside a target: the value expression is evaluated before it
                    _Subst({v: st.value}).visit(T)
                    del blk[i]
                    log.append(f"forward-substituted single-use local `{v}`")
                    progressed = changed = True
                    break
                if progressed:
                    break
            if progressed:
                break
        if not progressed:
            break
    return changed


def rhs_head(e: ast.AST | None) -> str:
    "coarse kind of a defining expression: used to refuse renames between locals that are defined in unrelated ways"
    if e is None:
        return "?"
    if isinstance(e, ast.Call):
        return "call:" + (_dotted(e.func) or "?").rsplit(".", 1)[-1]
    if isinstance(e, (ast.Attribute, ast.Name)):
        return "ref"
    if isinstance(e, ast.Subscript):
        return "subscript"
    if isinstance(e, ast.Constant):
        return "const"
    if isinstance(e, (ast.List, ast.ListComp, ast.Tuple, ast.Set, ast.SetComp, ast.Dict, ast.DictComp, ast.GeneratorExp)):
        return "display"
    return type(e).__name__


def local_heads(fn: ast.FunctionDef) -> dict[str, str]:
    "local -> head of its first defining expression (assignments only; loop / with / except targets and parameters: '?')"
    first: dict[str, tuple] = {}
    for n in _walk_fn(fn):
        if isinstance(n, (ast.Assign, ast.AnnAssign)) and getattr(n, "value", None) is not None:
            tg = n.targets if isinstance(n, ast.Assign) else [n.target]
            for t in tg:
                if isinstance(t, ast.Name):
                    key = (n.lineno, n.col_offset)
                    if t.id not in first or key < first[t.id][0]:
                        first[t.id] = (key, rhs_head(n.value))
    return {k: v[1] for k, v in first.items()}


def _compatible(fn: ast.FunctionDef, mapping: dict[str, str], ref_heads: dict[str, str] | None) -> dict[str, str]:
    "drop rename pairs whose defining expressions are of unrelated kinds"
    if not ref_heads:
        return mapping
    cur = local_heads(fn)
    out = {}
    for a, b in mapping.items():
        ha, hb = cur.get(a, "?"), ref_heads.get(b, "?")
        if ha == "?" or hb == "?" or ha == hb or {ha, hb} <= {"IfExp", "const", "ref", "subscript"} and False:
            out[a] = b
        elif ha.startswith("call:") and hb.startswith("call:") and ha != hb:
            continue
        elif ha != hb:
            continue
    return out


def _recover_renames(fn: ast.FunctionDef, ref_locals: list[str], log: list[str], ref_heads: dict | None = None) -> None:
    "R3 (in place)"
    cur = local_names(fn)
    new = [n for n in cur if n not in ref_locals]
    missing = [n for n in ref_locals if n not in cur]
    if not new or len(new) != len(missing):
        return
    mapping = dict(zip(new, missing))
    if _compatible(fn, mapping, ref_heads) != mapping:
        return
    renamed = [mapping.get(n, n) for n in cur]
    # the mapping must restore the reference's relative order of the locals both lists share
    common_ref = [n for n in ref_locals if n in renamed]
    common_cur = [n for n in renamed if n in ref_locals]
    if common_ref != common_cur:
        return
    _Rename(mapping).visit(fn)
    log.append("renamed back: " + ", ".join(f"{a}->{b}" for a, b in mapping.items()))


def _unroll_const_loops(fn: ast.FunctionDef, log: list[str]) -> bool:
    """G11 (in place): `for v in (<constants>): body` (at most 8 constants, no break/continue/else, v not re-bound, v and the names the body
    binds not used outside the loop) is unrolled; the names bound in the body get one copy per iteration"""
    changed = False
    for parent in list(_walk_fn(fn)) + [fn]:
        for fld in ("body", "orelse", "finalbody"):
            blk = getattr(parent, fld, None)
            if not (isinstance(blk, list) and blk and isinstance(blk[0], ast.stmt)):
                continue
            i = 0
            while i < len(blk):
                lp = blk[i]
                i += 1
                if not (isinstance(lp, ast.For) and not lp.orelse and isinstance(lp.target, ast.Name) and isinstance(lp.iter, (ast.Tuple, ast.List))
                        and 1 <= len(lp.iter.elts) <= 8 and all(isinstance(e, ast.Constant) for e in lp.iter.elts)):
                    continue
                inner = [x for st in lp.body for x in ast.walk(st)]
                if any(isinstance(x, (ast.Break, ast.Continue, ast.FunctionDef, ast.Lambda, ast.Return)) for x in inner):
                    continue
                v = lp.target.id
                bound = {x.id for x in inner if isinstance(x, ast.Name) and isinstance(x.ctx, ast.Store)}
                if v in bound:
                    continue
                inner_ids = {id(x) for x in inner} | {id(lp.target)}
                # occurrences inside other loops that re-bind the same loop variable do not observe this loop's variable
                rebound_elsewhere = set()
                for other in _walk_fn(fn):
                    if isinstance(other, ast.For) and other is not lp and isinstance(other.target, ast.Name) and other.target.id == v:
                        rebound_elsewhere |= {id(x) for st_ in other.body for x in ast.walk(st_) if isinstance(x, ast.Name) and x.id == v}
                        rebound_elsewhere.add(id(other.target))
                outside = {x.id for x in _walk_fn(fn) if isinstance(x, ast.Name) and id(x) not in inner_ids and id(x) not in rebound_elsewhere}
                if v in outside:
                    continue
                carried = bool(bound & outside)   # a loop-carried accumulator (`out = f(out, v)`): plain unrolling, the names keep their identity
                out = []
                for k, c in enumerate(lp.iter.elts):
                    body = copy.deepcopy(lp.body)
                    mod = ast.Module(body=body, type_ignores=[])
                    _Subst({v: c}).visit(mod)
                    if bound and not carried:
                        _Rename({b: f"{b}__{k}" for b in bound}).visit(mod)
                    out.extend(mod.body)
                blk[i - 1:i] = out
                i = i - 1 + len(out)
                changed = True
                log.append(f"unrolled loop over {len(lp.iter.elts)} constants in {fn.name}")
    return changed


def _expand_const_table_comprehensions(fn: ast.FunctionDef, log: list[str]) -> bool:
    """G24 (in place): `tuple(E for a, b in T)` / `[E for a, b in T]` / `(E for ...)` passed to tuple/list, where T is a literal tuple / list of
    at most 8 rows of constants (or plain names / attribute chains) - written inline or bound once to a local used only there - becomes the
    literal tuple / list of the instantiated elements: a table-driven spelling of an explicit enumeration"""
    changed = False
    # locals bound once to a literal table
    tables: dict[str, ast.AST] = {}
    stores: dict[str, int] = {}
    for n in _walk_fn(fn):
        if isinstance(n, ast.Name) and isinstance(n.ctx, ast.Store):
            stores[n.id] = stores.get(n.id, 0) + 1

    def is_row(e) -> bool:
        simple = lambda x: isinstance(x, ast.Constant) or (isinstance(x, (ast.Name, ast.Attribute)) and _dotted(x) is not None)
        return simple(e) or (isinstance(e, (ast.Tuple, ast.List)) and all(simple(x) for x in e.elts))

    def is_table(e) -> bool:
        return isinstance(e, (ast.Tuple, ast.List)) and 1 <= len(e.elts) <= 8 and all(is_row(r) for r in e.elts)
    for st in _walk_fn(fn):
        if isinstance(st, (ast.Assign, ast.AnnAssign)) and getattr(st, "value", None) is not None:
            tg = st.targets[0] if isinstance(st, ast.Assign) and len(st.targets) == 1 else (st.target if isinstance(st, ast.AnnAssign) else None)
            if isinstance(tg, ast.Name) and stores.get(tg.id) == 1 and is_table(st.value):
                tables[tg.id] = st.value

    class T(ast.NodeTransformer):
        def _unrolled(self, comp):
            if len(comp.generators) != 1 or comp.generators[0].ifs or comp.generators[0].is_async:
                return None
            g = comp.generators[0]
            tab = g.iter if is_table(g.iter) else (tables.get(g.iter.id) if isinstance(g.iter, ast.Name) else None)
            if tab is None:
                return None
            names = [g.target.id] if isinstance(g.target, ast.Name) else ([t.id for t in g.target.elts] if isinstance(g.target, ast.Tuple) and all(isinstance(t, ast.Name) for t in g.target.elts) else None)
            if names is None:
                return None
            out = []
            for row in tab.elts:
                vals = [row] if isinstance(g.target, ast.Name) else (list(row.elts) if isinstance(row, (ast.Tuple, ast.List)) else None)
                if vals is None or len(vals) != len(names):
                    return None
                e = copy.deepcopy(comp.elt)
                e = _Subst(dict(zip(names, vals))).visit(e)
                out.append(e)
            return out

        def visit_Call(self, n):
            self.generic_visit(n)
            d = _dotted(n.func)
            if d in ("tuple", "list") and len(n.args) == 1 and not n.keywords and isinstance(n.args[0], (ast.GeneratorExp, ast.ListComp)):
                elts = self._unrolled(n.args[0])
                if elts is not None:
                    nonlocal changed
                    changed = True
                    return ast.copy_location((ast.Tuple if d == "tuple" else ast.List)(elts=elts, ctx=ast.Load()), n)
            return n

        def visit_ListComp(self, n):
            self.generic_visit(n)
            elts = self._unrolled(n)
            if elts is not None:
                nonlocal changed
                changed = True
                return ast.copy_location(ast.List(elts=elts, ctx=ast.Load()), n)
            return n
    T().visit(fn)
    if changed:
        log.append(f"expanded a comprehension over a constant table in {fn.name}")
        ast.fix_missing_locations(fn)
    return changed


def _fuse_comprehensions(fn: ast.FunctionDef, log: list[str]) -> bool:
    """G25 (in place): `E2 for n in [E1 for v in I if C]` -> `E2[n := E1] for v in I if C` when n is a plain name and E1 has no calls (attribute reads,
    subscripts, names): mapping and then consuming is the same as consuming the mapped element directly"""
    changed = False

    class T(ast.NodeTransformer):
        def _fuse(self, comp):
            nonlocal changed
            if len(comp.generators) != 1:
                return comp
            g = comp.generators[0]
            inner = g.iter
            if not (isinstance(g.target, ast.Name) and isinstance(inner, (ast.ListComp, ast.GeneratorExp)) and len(inner.generators) == 1 and not g.is_async):
                return comp
            if any(isinstance(x, (ast.Call, ast.Await, ast.Yield, ast.NamedExpr)) for x in ast.walk(inner.elt)):
                return comp
            ig = inner.generators[0]
            inner_names = {x.id for x in ast.walk(ig.target) if isinstance(x, ast.Name)}
            outer_names = {x.id for x in ast.walk(comp) if isinstance(x, ast.Name)} - {g.target.id}
            if inner_names & (outer_names - {x.id for x in ast.walk(inner) if isinstance(x, ast.Name)}):
                return comp   # the inner loop variable would capture a name of the outer element
            sub = {g.target.id: inner.elt}
            for fld in ("elt", "key", "value"):
                if hasattr(comp, fld):
                    setattr(comp, fld, _Subst(sub).visit(getattr(comp, fld)))
            new_ifs = list(ig.ifs) + [_Subst(sub).visit(i_) for i_ in g.ifs]
            comp.generators = [ast.comprehension(target=ig.target, iter=ig.iter, ifs=new_ifs, is_async=0)]
            changed = True
            return comp

        def visit_ListComp(self, n):
            self.generic_visit(n)
            return self._fuse(n)

        visit_GeneratorExp = visit_SetComp = visit_ListComp

        def visit_DictComp(self, n):
            self.generic_visit(n)
            return self._fuse(n)
    T().visit(fn)
    if changed:
        log.append(f"fused nested comprehensions in {fn.name}")
        ast.fix_missing_locations(fn)
    return changed


def _namedtuples_to_tuples(tree: ast.Module, modname: str, log: list[str]) -> None:
    """G29: a class that the reference does not have, derives from NamedTuple and only declares fields is a tuple with names: its constructor calls
    become tuple displays (positional, or keywords placed by field order) and the class is dropped when nothing else mentions it"""
    ref_fns = reference()["functions"]
    known_classes = {q.rsplit(".", 2)[-2] for q in ref_fns if q.startswith(modname + ".") and q.count(".") > modname.count(".") + 1}
    ref_assigns = set(reference().get("module_assigns", {}).get(modname, []))
    for cls in [st for st in tree.body if isinstance(st, ast.ClassDef)]:
        if cls.name in known_classes or cls.name in ref_assigns or not any(_dotted(b) in ("NamedTuple", "typing.NamedTuple") for b in cls.bases):
            continue
        fields = [st.target.id for st in cls.body if isinstance(st, ast.AnnAssign) and isinstance(st.target, ast.Name)]
        if not fields or any(not (isinstance(st, ast.AnnAssign) or (isinstance(st, ast.Expr) and isinstance(st.value, ast.Constant))) for st in cls.body):
            continue
        defaults = {st.target.id: st.value for st in cls.body if isinstance(st, ast.AnnAssign) and st.value is not None}
        ok = True

        class T(ast.NodeTransformer):
            def visit_Call(s_, n):
                nonlocal ok
                s_.generic_visit(n)
                if _dotted(n.func) != cls.name:
                    return n
                vals = dict(zip(fields, n.args))
                for k in n.keywords:
                    if k.arg is None or k.arg not in fields or k.arg in vals:
                        ok = False
                        return n
                    vals[k.arg] = k.value
                for f_ in fields:
                    if f_ not in vals:
                        if f_ in defaults:
                            vals[f_] = copy.deepcopy(defaults[f_])
                        else:
                            ok = False
                            return n
                if any(isinstance(a_, ast.Starred) for a_ in n.args):
                    ok = False
                    return n
                return ast.copy_location(ast.Tuple(elts=[vals[f_] for f_ in fields], ctx=ast.Load()), n)
        new_tree = T().visit(copy.deepcopy(tree))
        # attribute access by field name on such a tuple cannot be rewritten here: only take the rewrite when no `.field` read of a new field name
        # appears next to the class (unpacking is the common use)
        others = [x for x in ast.walk(new_tree) if isinstance(x, ast.Name) and x.id == cls.name and isinstance(x.ctx, ast.Load)]
        only_annotations = True
        ann_ids = {id(y) for x in ast.walk(new_tree) for fld in ("annotation", "returns") for a_ in [getattr(x, fld, None)] if a_ is not None for y in ast.walk(a_)}
        for x in others:
            if id(x) not in ann_ids:
                only_annotations = False
        if not ok or not only_annotations:
            continue
        tree.body[:] = [st for st in new_tree.body if not (isinstance(st, ast.ClassDef) and st.name == cls.name)]
        log.append(f"constructor calls of the new NamedTuple {cls.name} written as tuples in {modname}")
    ast.fix_missing_locations(tree)


def _expand_new_kwargs_tables(tree: ast.Module, modname: str, log: list[str]) -> None:
    """G26: a module-level dict literal with constant string keys that the reference does not have and that is used only as `**NAME` in calls
    (decorator options shared by several classes) is written back as explicit keywords at every call, and dropped"""
    ref_assigns = set(reference().get("module_assigns", {}).get(modname, []))
    cands = {}
    for st in tree.body:
        tg = st.targets[0] if isinstance(st, ast.Assign) and len(st.targets) == 1 else (st.target if isinstance(st, ast.AnnAssign) and st.value is not None else None)
        if isinstance(tg, ast.Name) and tg.id not in ref_assigns and isinstance(st.value, ast.Dict) and st.value.keys \
                and all(isinstance(k, ast.Constant) and isinstance(k.value, str) and k.value.isidentifier() for k in st.value.keys) \
                and all(_is_literal_constant(v) for v in st.value.values):
            cands[tg.id] = st
    if not cands:
        return
    uses = {n: 0 for n in cands}
    star_uses = {n: 0 for n in cands}
    for x in ast.walk(tree):
        if isinstance(x, ast.Name) and isinstance(x.ctx, ast.Load) and x.id in cands:
            uses[x.id] += 1
        if isinstance(x, ast.keyword) and x.arg is None and isinstance(x.value, ast.Name) and x.value.id in cands:
            star_uses[x.value.id] += 1
    for name, st in cands.items():
        if not uses[name] or uses[name] != star_uses[name]:
            continue
        d = st.value
        for x in ast.walk(tree):
            if isinstance(x, ast.Call) and any(k.arg is None and isinstance(k.value, ast.Name) and k.value.id == name for k in x.keywords):
                new_kw = []
                for k in x.keywords:
                    if k.arg is None and isinstance(k.value, ast.Name) and k.value.id == name:
                        new_kw += [ast.keyword(arg=kk.value, value=copy.deepcopy(vv)) for kk, vv in zip(d.keys, d.values)]
                    else:
                        new_kw.append(k)
                x.keywords = new_kw
        i = tree.body.index(st)
        del tree.body[i]
        if i < len(tree.body) and isinstance(tree.body[i], ast.Expr) and isinstance(tree.body[i].value, ast.Constant) and isinstance(tree.body[i].value.value, str):
            del tree.body[i]   # its attribute docstring
        log.append(f"expanded **{name} into explicit keywords in {modname}")
    ast.fix_missing_locations(tree)


def _dfs_names(fn: ast.AST) -> list[ast.Name]:
    "Name nodes of a function in source (depth-first, left-to-right) order; assignments: value before targets"
    out: list[ast.Name] = []

    def rec(n):
        if isinstance(n, (ast.FunctionDef, ast.AsyncFunctionDef, ast.ClassDef, ast.Lambda)) and n is not fn:
            for x in ast.walk(n):
                if isinstance(x, ast.Name):
                    out.append(x)
            return
        if isinstance(n, ast.Name):
            out.append(n)
            return
        if isinstance(n, ast.Assign):
            rec(n.value)
            for t in n.targets:
                rec(t)
            return
        if isinstance(n, (ast.AnnAssign, ast.AugAssign)):
            if getattr(n, "value", None) is not None:
                rec(n.value)
            rec(n.target)
            return
        for ch in ast.iter_child_nodes(n):
            rec(ch)
    rec(fn)
    return out


def _split_tuple_copies(fn: ast.FunctionDef) -> bool:
    "`a, b = (x, y)` with plain names on both sides (no name on the right is a target on the left) -> `a = x; b = y`"
    changed = False
    for parent in [fn, *_walk_fn(fn)]:
        for fld in ("body", "orelse", "finalbody"):
            blk = getattr(parent, fld, None)
            if not (isinstance(blk, list) and blk and isinstance(blk[0], ast.stmt)):
                continue
            i = 0
            while i < len(blk):
                st = blk[i]
                i += 1
                if isinstance(st, ast.Assign) and len(st.targets) == 1 and isinstance(st.targets[0], (ast.Tuple, ast.List)) and isinstance(st.value, (ast.Tuple, ast.List)) \
                        and len(st.targets[0].elts) == len(st.value.elts) and all(isinstance(e, ast.Name) for e in st.targets[0].elts):
                    tnames = {e.id for e in st.targets[0].elts}
                    if any(isinstance(x, ast.Name) and x.id in tnames for v in st.value.elts for x in ast.walk(v)):
                        continue
                    if not all(_is_pure(v) for v in st.value.elts):
                        continue
                    new = [ast.copy_location(ast.Assign(targets=[t], value=v), st) for t, v in zip(st.targets[0].elts, st.value.elts)]
                    blk[i - 1:i] = new
                    i += len(new) - 1
                    changed = True
    return changed


def _read_later(fn: ast.FunctionDef, st: ast.stmt, name: str) -> bool:
    """can a read of `name` follow statement `st`?  the statements after st in its own block and in every enclosing block (sibling branches of an
    enclosing `if` are not reachable from st), plus - for an enclosing loop that does not itself re-bind `name` as its target - the whole loop"""
    parents = {}
    for p_ in [fn, *_walk_fn(fn)]:
        for ch in ast.iter_child_nodes(p_):
            parents[ch] = p_
    later: list[ast.AST] = []
    cur: ast.AST = st
    rebinder = None
    while cur in parents:
        par = parents[cur]
        for fld in ("body", "orelse", "finalbody", "handlers"):
            blk = getattr(par, fld, None)
            if isinstance(blk, list) and any(x is cur for x in blk):
                i = next(k for k, x in enumerate(blk) if x is cur)
                later += blk[i + 1:]
                if isinstance(par, ast.Try) and fld == "body":
                    later += [*par.handlers, *par.orelse, *par.finalbody]
        if isinstance(par, (ast.For, ast.While)):
            tgt_names = {x.id for x in ast.walk(par.target) if isinstance(x, ast.Name)} if isinstance(par, ast.For) else set()
            if name in tgt_names:
                rebinder = rebinder or par   # every way back into this loop's body passes its head, which re-binds the name
            elif rebinder is None:
                later.append(par)
            else:
                later += [x for x in [*par.body, *par.orelse] if x is not rebinder and not any(y is rebinder for y in ast.walk(x))]
                if isinstance(par, ast.While):
                    later.append(par.test)
        cur = par
    def reads(node) -> bool:
        "a read of the outer `name` inside node (names bound by a comprehension / lambda of their own are not it)"
        if isinstance(node, (ast.ListComp, ast.SetComp, ast.DictComp, ast.GeneratorExp)):
            bound = {x.id for g in node.generators for x in ast.walk(g.target) if isinstance(x, ast.Name)}
            if name in bound:
                return any(reads(g.iter) for g in node.generators[:1])
        if isinstance(node, ast.Lambda) and name in {a_.arg for a_ in node.args.args}:
            return False
        if isinstance(node, ast.Name):
            return node.id == name and isinstance(node.ctx, ast.Load)
        return any(reads(ch) for ch in ast.iter_child_nodes(node))
    for n_ in later:
        if isinstance(n_, ast.For) and name in {x.id for x in ast.walk(n_.target) if isinstance(x, ast.Name)}:
            if reads(n_.iter):
                return True
            continue   # the loop re-binds the name before its body reads it
        if reads(n_):
            return True
    return False


def _coalesce_copies(fn: ast.FunctionDef, ref_locals: list[str], log: list[str]) -> bool:
    """R1b (in place): `x = t` where t is a local that is new w.r.t. the reference and dead afterwards, and x is bound only here and
    not read before: t *is* x - rename t to x and drop the copy (left behind by helper inlining / tuple returns)"""
    changed = False
    for _ in range(12):
        progressed = False
        params = set(_param_names(fn))
        names = _dfs_names(fn)
        order = {id(n): i for i, n in enumerate(names)}
        for parent in [fn, *_walk_fn(fn)]:
            for fld in ("body", "orelse", "finalbody"):
                blk = getattr(parent, fld, None)
                if not (isinstance(blk, list) and blk and isinstance(blk[0], ast.stmt)):
                    continue
                for st in list(blk):
                    if not (isinstance(st, ast.Assign) and len(st.targets) == 1 and isinstance(st.targets[0], ast.Name) and isinstance(st.value, ast.Name)):
                        continue
                    x, t = st.targets[0].id, st.value.id
                    if x != t and x not in params and x not in ref_locals and x.count("__") and not _read_later(fn, st, t) \
                            and not any(n.id == x and n is not st.targets[0] and order[id(n)] < order[id(st.value)] for n in names):
                        # the reverse: `p__helper = t` left by inlining a helper that re-binds its parameter, t never read again: the helper's local *is* t
                        blk.remove(st)
                        if not blk:
                            blk.append(ast.copy_location(ast.Pass(), st))
                        _Rename({x: t}).visit(fn)
                        log.append(f"coalesced copy `{x} = {t}` into `{t}`")
                        progressed = changed = True
                        break
                    if x == t or t in params or x in params or t in ref_locals:
                        continue
                    here = order[id(st.value)]
                    x_stores = [n for n in names if n.id == x and isinstance(n.ctx, ast.Store)]
                    x_before = [n for n in names if n.id == x and order[id(n)] < here]
                    t_after = [n for n in names if n.id == t and order[id(n)] > here]
                    if len(x_stores) != 1 or x_before or t_after:
                        # the same copy in several branches (`if c: ...; x = t` / `else: ...; x = t`, left by inlining a helper whose arms both bind t):
                        # every store of x is such a copy, x is never read before the first, t is read only by these copies
                        copies = [s_ for s_ in [fn, *_walk_fn(fn)] if isinstance(s_, ast.Assign) and len(s_.targets) == 1 and isinstance(s_.targets[0], ast.Name)
                                  and s_.targets[0].id == x and isinstance(s_.value, ast.Name) and s_.value.id == t]
                        copy_vals = {id(s_.value) for s_ in copies}
                        first = min((order[id(s_.value)] for s_ in copies), default=here)
                        def _t_rebound_after(copy_st) -> bool:
                            for par3 in [fn, *_walk_fn(fn)]:
                                for fld3 in ("body", "orelse", "finalbody"):
                                    blk3 = getattr(par3, fld3, None)
                                    if isinstance(blk3, list) and any(z is copy_st for z in blk3):
                                        i3 = next(k for k, z in enumerate(blk3) if z is copy_st)
                                        return any(isinstance(y, ast.Name) and y.id == t and isinstance(y.ctx, ast.Store) for z in blk3[i3 + 1:] for y in ast.walk(z))
                            return True
                        last = max((order[id(s_.value)] for s_ in copies), default=here)
                        if len(copies) >= 2 and len(copies) == len(x_stores) and not any(_t_rebound_after(c_) for c_ in copies) \
                                and not any(n.id == t and isinstance(n.ctx, ast.Store) and order[id(n)] > last for n in names) \
                                and not any(n.id == x and isinstance(n.ctx, ast.Load) and order[id(n)] < first for n in names):
                            # (x is bound by these copies only, so wherever t is read after a copy x holds the same object: reads of t may stay reads of x)
                            for par2 in [fn, *_walk_fn(fn)]:
                                for fld2 in ("body", "orelse", "finalbody"):
                                    blk2 = getattr(par2, fld2, None)
                                    if isinstance(blk2, list) and any(c_ in blk2 for c_ in copies):
                                        blk2[:] = [z for z in blk2 if not any(z is c_ for c_ in copies)] or [ast.copy_location(ast.Pass(), st)]
                            _Rename({t: x}).visit(fn)
                            log.append(f"coalesced the branch-wise copies `{x} = {t}`")
                            progressed = changed = True
                            break
                        continue
                    # the definition(s) of t must not sit inside a loop that the copy is outside of (the value would be the last iteration's: still the same object) - fine
                    blk.remove(st)
                    if not blk:
                        blk.append(ast.copy_location(ast.Pass(), st))
                    _Rename({t: x}).visit(fn)
                    log.append(f"coalesced copy `{x} = {t}`")
                    progressed = changed = True
                    break
                if progressed:
                    break
            if progressed:
                break
        if not progressed:
            break
    return changed


def _recover_renames_by_position(fn: ast.FunctionDef, ref_locals: list[str], log: list[str], ref_heads: dict | None = None) -> None:
    """R3a (in place, before R2): between two consecutive locals that both lists share, a run of new names of the same length as
    the run of vanished reference names is a rename"""
    cur = local_names(fn)
    common = [n for n in cur if n in ref_locals]
    if common != [n for n in ref_locals if n in cur]:
        return

    def runs(names, keep):
        out, run = [], []
        for n in names:
            if n in keep:
                out.append(run)
                run = []
            else:
                run.append(n)
        out.append(run)
        return out

    keep = set(common)
    mapping = {}
    for a, b in zip(runs(cur, keep), runs(ref_locals, keep)):
        if a and len(a) == len(b):
            mapping.update(zip(a, b))
    mapping = _compatible(fn, mapping, ref_heads)
    if mapping:
        _Rename(mapping).visit(fn)
        log.append("renamed back (by position): " + ", ".join(f"{a}->{b}" for a, b in mapping.items()))


# ------------------------------------------------------------------------------------------------ inlining
def _param_map(callee: ast.FunctionDef, call: ast.Call, skip_first: bool) -> dict[str, ast.AST] | None:
    a = callee.args
    params = [x.arg for x in [*a.posonlyargs, *a.args]]
    if skip_first:
        params = params[1:]
    kwonly = [x.arg for x in a.kwonlyargs]
    if any(isinstance(x, ast.Starred) for x in call.args) or any(k.arg is None for k in call.keywords):
        return None
    if len(call.args) > len(params) and not a.vararg:
        return None
    m: dict[str, ast.AST] = {}
    for p, v in zip(params, call.args):
        m[p] = v
    extra_kw: list[tuple[str, ast.AST]] = []
    for k in call.keywords:
        if k.arg in m:
            return None
        if k.arg not in params + kwonly:
            if not a.kwarg:
                return None
            extra_kw.append((k.arg, k.value))  # collected by `**kwargs`, in call order (dicts keep it)
            continue
        m[k.arg] = k.value
    if a.kwarg:
        m[a.kwarg.arg] = ast.Dict(keys=[ast.Constant(k_) for k_, _ in extra_kw], values=[v_ for _, v_ in extra_kw])
    if a.vararg:
        m[a.vararg.arg] = ast.Tuple(elts=list(call.args[len(params):]), ctx=ast.Load())
    defaults = a.defaults
    pos_all = [x.arg for x in [*a.posonlyargs, *a.args]]
    def _per_call_ok(d) -> bool:
        # a default is evaluated once, at definition time: substituting its expression at the call site is only the same thing for values without
        # identity (constants, tuples of constants, names): a `{}` / `[]` / `dict()` default is ONE object shared by all calls
        if isinstance(d, ast.Constant) or isinstance(d, (ast.Name, ast.Attribute)):
            return True
        if isinstance(d, ast.Tuple):
            return all(_per_call_ok(e) for e in d.elts)
        if isinstance(d, ast.UnaryOp) and isinstance(d.operand, ast.Constant):
            return True
        return False
    for p, d in zip(pos_all[len(pos_all) - len(defaults):], defaults):
        if p not in m and not _per_call_ok(d):
            return None
        m.setdefault(p, d)
    for p, d in zip(kwonly, a.kw_defaults):
        if d is not None:
            if p not in m and not _per_call_ok(d):
                return None
            m.setdefault(p, d)
    if any(p not in m for p in params + kwonly):
        return None
    return m


def _body_wo_doc(fn: ast.FunctionDef) -> list[ast.stmt]:
    b = fn.body
    if b and isinstance(b[0], ast.Expr) and isinstance(b[0].value, ast.Constant) and isinstance(b[0].value.value, str):
        return b[1:]
    return b


def _tail_convert(body: list[ast.stmt], make) -> list[ast.stmt] | None:
    """rewrite a helper body whose returns are in tail / early-return position: `return E` -> make(E);
    `if c: ...return` followed by rest -> if/else nesting.  None if a return sits inside a loop / try / with."""
    out: list[ast.stmt] = []
    for i, st in enumerate(body):
        if isinstance(st, ast.Return):
            out.extend(make(st.value if st.value is not None else ast.Constant(None)))
            return out
        if isinstance(st, ast.If):
            has_ret = any(isinstance(x, ast.Return) for x in ast.walk(st))
            if not has_ret:
                out.append(st)
                continue
            rest = body[i + 1:]
            b = _tail_convert(st.body, make) if _exits_with_return(st.body) else None
            if b is None:
                return None
            o = _tail_convert(list(st.orelse) + list(rest), make)
            if o is None:
                return None
            out.append(ast.copy_location(ast.If(test=st.test, body=b, orelse=o), st))
            return out
        if any(isinstance(x, ast.Return) for x in ast.walk(st)):
            return None
        out.append(st)
    # falls off the end: implicit `return None`
    out.extend(make(ast.Constant(None)))
    return out


def _exits_with_return(body: list[ast.stmt]) -> bool:
    if not body:
        return False
    last = body[-1]
    if isinstance(last, (ast.Return, ast.Raise)):
        return True
    if isinstance(last, ast.If) and last.orelse:
        return _exits_with_return(last.body) and _exits_with_return(last.orelse)
    return False


def _as_expr_body(callee: ast.FunctionDef) -> ast.expr | None:
    """the helper's result as one expression: `return E`, or guard returns `if c: return E1` ... `return En` -> `E1 if c else (... En)`"""
    b = _body_wo_doc(callee)
    if not b or not isinstance(b[-1], ast.Return) or b[-1].value is None:
        return None
    guards = []
    for st in b[:-1]:
        if isinstance(st, ast.If) and not st.orelse and len(st.body) == 1 and isinstance(st.body[0], ast.Return) and st.body[0].value is not None:
            guards.append((st.test, st.body[0].value))
        else:
            return None
    e = b[-1].value
    for test, val in reversed(guards):
        e = ast.IfExp(test=test, body=val, orelse=e)
    return e


def _uncomprehend_for_helpers(fn: ast.FunctionDef, inl: "_Inliner") -> None:
    """`xs = [E for v in I if C]` whose element calls a multi-statement helper (which can only be inlined at statement level) is
    written back as the loop `xs = []; for v in I: if C: xs.append(E)`"""
    for parent in [fn, *_walk_fn(fn)]:
        for fld in ("body", "orelse", "finalbody"):
            blk = getattr(parent, fld, None)
            if not (isinstance(blk, list) and blk and isinstance(blk[0], ast.stmt)):
                continue
            i = 0
            while i < len(blk):
                st = blk[i]
                i += 1
                if not (isinstance(st, (ast.Assign, ast.AnnAssign)) and isinstance(getattr(st, "value", None), ast.ListComp)):
                    continue
                tg = st.targets if isinstance(st, ast.Assign) else [st.target]
                comp = st.value
                if not (len(tg) == 1 and isinstance(tg[0], ast.Name) and len(comp.generators) == 1 and not comp.generators[0].is_async):
                    continue
                if not any(isinstance(c_, ast.Call) and inl._callee(c_) is not None and _as_expr_body(inl._callee(c_)[0]) is None for c_ in ast.walk(comp.elt)):
                    continue
                g = comp.generators[0]
                acc = tg[0].id
                app = ast.Expr(value=ast.Call(func=ast.Attribute(value=ast.Name(id=acc, ctx=ast.Load()), attr="append", ctx=ast.Load()), args=[comp.elt], keywords=[]))
                body: list[ast.stmt] = [app]
                if g.ifs:
                    test = g.ifs[0] if len(g.ifs) == 1 else ast.BoolOp(op=ast.And(), values=list(g.ifs))
                    body = [ast.If(test=test, body=[app], orelse=[])]
                loop = ast.For(target=g.target, iter=g.iter, body=body, orelse=[])
                init = ast.Assign(targets=[ast.Name(id=acc, ctx=ast.Store())], value=ast.List(elts=[], ctx=ast.Load()))
                for n_ in (init, loop):
                    ast.copy_location(n_, st)
                    ast.fix_missing_locations(n_)
                blk[i - 1:i] = [init, loop]
                i += 1


class _Inliner:
    def __init__(self, helpers: dict[str, tuple[ast.FunctionDef, bool]], log: list[str]) -> None:
        # key: call spelling ("name", "self.name", "cls.name", "Class.name") -> (FunctionDef, skip_first_param)
        self.helpers = helpers
        self.log = log

    def _callee(self, call: ast.Call):
        d = _dotted(call.func)
        return self.helpers.get(d) if d else None

    def _instantiate(self, callee: ast.FunctionDef, call: ast.Call, skip_first: bool, caller: ast.FunctionDef):
        m = _param_map(callee, call, skip_first)
        if m is None:
            return None
        body = copy.deepcopy(_body_wo_doc(callee))
        # a parameter that is re-bound inside the helper is a local of the helper initialised from the argument: it becomes a fresh local of the
        # caller, `p__helper = <argument>`, in front of the inlined body (copy coalescing merges it back when the caller's name is dead afterwards)
        rebinding = {n.id for st in body for n in ast.walk(st) if isinstance(n, ast.Name) and isinstance(n.ctx, ast.Store)}
        pre: list[ast.stmt] = []
        for p_ in sorted(rebinding & set(m)):
            fresh = f"{p_}__{callee.name.strip('_')}"
            pre.append(ast.Assign(targets=[ast.Name(id=fresh, ctx=ast.Store())], value=m.pop(p_)))
            mod_ = ast.Module(body=body, type_ignores=[])
            _Rename({p_: fresh}).visit(mod_)
            body = mod_.body
            rebinding = (rebinding - {p_}) | {fresh}
        body = pre + body
        # helper locals must not capture caller names
        caller_names = set(local_names(caller))
        clash = (rebinding & caller_names)
        ren = {n: f"{n}__{callee.name.strip('_')}" for n in clash}
        mod = ast.Module(body=body, type_ignores=[])
        if ren:
            _Rename(ren).visit(mod)
        # arguments with calls are only substituted when the parameter is used at most once
        for p, v in m.items():
            uses = sum(1 for n in ast.walk(mod) if isinstance(n, ast.Name) and n.id == p and isinstance(n.ctx, ast.Load))
            if uses > 1 and not _is_pure(v):
                return None
        _Subst(m).visit(mod)
        return mod.body

    def run(self, caller: ast.FunctionDef) -> None:
        for _ in range(4):
            if not self._pass(caller):
                break

    def _pass(self, caller: ast.FunctionDef) -> bool:
        changed = False
        for parent in list(ast.walk(caller)):
            for fld in ("body", "orelse", "finalbody"):
                blk = getattr(parent, fld, None)
                if not (isinstance(blk, list) and blk and isinstance(blk[0], ast.stmt)):
                    continue
                i = 0
                while i < len(blk):
                    st = blk[i]
                    rep = self._stmt(st, caller)
                    if rep is not None:
                        blk[i:i + 1] = rep
                        changed = True
                        i += len(rep)
                    else:
                        i += 1
        # expression-level: helpers that are a single `return E`
        class T(ast.NodeTransformer):
            def _ref(s, n):
                "a bare reference to an expression-bodied helper (passed as a callable) becomes the equivalent lambda"
                d = _dotted(n)
                c = self.helpers.get(d) if d else None
                if c is None or not isinstance(getattr(n, "ctx", None), ast.Load):
                    return n
                callee, skip = c
                a = callee.args
                eb_ = _as_expr_body(callee)   # `return E`, or guard returns folded into one conditional expression
                if eb_ is None or a.vararg or a.kwarg or a.kwonlyargs or a.defaults:
                    return n
                b = [ast.Return(value=eb_)]
                params = [x.arg for x in [*a.posonlyargs, *a.args]]
                if skip:
                    params = params[1:]
                nonlocal changed
                changed = True
                self.log.append(f"helper reference {callee.name} -> lambda in {caller.name}")
                lam = ast.Lambda(args=ast.arguments(posonlyargs=[], args=[ast.arg(arg=p_) for p_ in params], kwonlyargs=[], kw_defaults=[], defaults=[]),
                                 body=copy.deepcopy(b[0].value))
                return ast.copy_location(lam, n)

            def visit_Name(s, n: ast.Name):
                return s._ref(n)

            def visit_Attribute(s, n: ast.Attribute):
                s.generic_visit(n)
                return s._ref(n)

            def visit_Call(s, n: ast.Call):
                if self._callee(n) is None:
                    n.func = s.visit(n.func)
                n.args = [s.visit(a_) for a_ in n.args]
                n.keywords = [s.visit(k_) for k_ in n.keywords]
                c = self._callee(n)
                if c is None:
                    return n
                callee, skip = c
                eb = _as_expr_body(callee)
                if eb is not None:
                    shim = copy.copy(callee)
                    shim.body = [ast.Return(value=eb)]
                    inst = self._instantiate(shim, n, skip, caller)
                    if inst is not None and len(inst) == 1 and isinstance(inst[0], ast.Return):
                        self.log.append(f"inlined expression helper {callee.name} into {caller.name}")
                        nonlocal changed
                        changed = True
                        return ast.copy_location(inst[0].value, n)
                return n
        T().visit(caller)
        return changed

    def _stmt(self, st: ast.stmt, caller: ast.FunctionDef):
        call = None
        kind = None
        if isinstance(st, ast.Expr) and isinstance(st.value, ast.Call):
            call, kind = st.value, "stmt"
        elif isinstance(st, ast.Return) and isinstance(st.value, ast.Call):
            call, kind = st.value, "return"
        elif isinstance(st, (ast.Assign, ast.AnnAssign)) and isinstance(getattr(st, "value", None), ast.Call):
            tg = st.targets if isinstance(st, ast.Assign) else [st.target]
            if len(tg) == 1:
                call, kind = st.value, "assign"
        if call is None or self._callee(call) is None or _as_expr_body(self._callee(call)[0]) is not None:
            # a multi-statement helper called *inside* the statement's expression (e.g. `xs.append(helper(a))`): hoist the call into
            # its own assignment when everything evaluated before it is pure, then inline that assignment
            heads = _head_exprs(st) if isinstance(st, (ast.Expr, ast.Assign, ast.AnnAssign, ast.Return)) else None
            if heads:
                order: list = []
                for h in heads:
                    if h is not None:
                        _eval_order(h, True, order)
                for k, (x, once) in enumerate(order):
                    if isinstance(x, ast.Call) and x is not call and self._callee(x) is not None and _as_expr_body(self._callee(x)[0]) is None and once:
                        before = [y for y, _ in order[:k]]
                        inside = {id(z) for z in ast.walk(x)}
                        if any(isinstance(y, ast.Call) and id(y) not in inside and not _is_pure(ast.Call(func=y.func, args=[], keywords=[])) for y in before):
                            break
                        if isinstance(st, (ast.Assign, ast.AnnAssign)) and not any(x is z for z in ast.walk(st.value)):
                            break
                        self._n_hoist = getattr(self, "_n_hoist", 0) + 1
                        tmp = f"_hoisted_{self._n_hoist}"
                        assign = ast.fix_missing_locations(ast.copy_location(ast.Assign(targets=[ast.Name(id=tmp, ctx=ast.Store())], value=x), st))

                        class R(ast.NodeTransformer):
                            def visit_Call(s_, n_):
                                if n_ is x:
                                    return ast.copy_location(ast.Name(id=tmp, ctx=ast.Load()), n_)
                                return s_.generic_visit(n_)
                        st2 = R().visit(st)
                        inl = self._stmt(assign, caller)
                        if inl is None:
                            # undo
                            class B(ast.NodeTransformer):
                                def visit_Name(s_, n_):
                                    return x if n_.id == tmp else n_
                            B().visit(st2)
                            return None
                        return [*inl, st2]
            return None
        c = self._callee(call)
        callee, skip = c
        b = _body_wo_doc(callee)
        inst = self._instantiate(callee, call, skip, caller)
        if inst is None:
            return None
        if kind == "stmt":
            conv = _tail_convert(inst, lambda e: [])
        elif kind == "return":
            conv = _tail_convert(inst, lambda e: [ast.copy_location(ast.Return(value=e), st)])
        else:
            tgt = st.targets[0] if isinstance(st, ast.Assign) else st.target
            conv = _tail_convert(inst, lambda e: [ast.copy_location(ast.Assign(targets=[copy.deepcopy(tgt)], value=e), st)])
        if conv is None:
            return None
        conv = [s for s in conv] or [ast.copy_location(ast.Pass(), st)]
        for s in conv:
            ast.copy_location(s, st) if not hasattr(s, "lineno") else None
        self.log.append(f"inlined helper {callee.name} into {caller.name}")
        return conv


# ------------------------------------------------------------------------------------------------ driver
def _functions(tree: ast.Module, modname: str):
    "(qualname, FunctionDef, enclosing ClassDef | None, parent list) for module-level functions, methods (nested classes too) and nested functions"
    out = []

    def rec(body, prefix, cls):
        for st in body:
            if isinstance(st, (ast.FunctionDef, ast.AsyncFunctionDef)):
                q = f"{prefix}.{st.name}"
                out.append((q, st, cls, body))
                rec(st.body, q, cls)
            elif isinstance(st, ast.ClassDef):
                rec(st.body, f"{prefix}.{st.name}", st)
            elif isinstance(st, (ast.If, ast.Try, ast.With, ast.For, ast.While)):
                for fld in ("body", "orelse", "finalbody"):
                    b = getattr(st, fld, None)
                    if isinstance(b, list):
                        rec(b, prefix, cls)
    rec(tree.body, modname, None)
    return out


def _param_names(fn: ast.FunctionDef) -> list[str]:
    a = fn.args
    return [x.arg for x in [*a.posonlyargs, *a.args, *a.kwonlyargs]] + ([a.vararg.arg] if a.vararg else []) + ([a.kwarg.arg] if a.kwarg else [])


def recover_function_renames(trees: dict[str, ast.Module], log: list[str]) -> None:
    """R0 (package-wide, before the per-module rewrites): a function of the reference that is missing from its
    container (module / class) while the same container holds a function that is new w.r.t. the reference is a
    *rename* when the pairing is unambiguous (one missing and one new function in that container with the same
    number of parameters, or equal local-name lists); the new identifier is then renamed back everywhere in the
    package (definitions, names, attributes, import aliases, exact string constants), provided that the new
    identifier names nothing else in the package and the old identifier is no longer used anywhere."""
    ref = reference()["functions"]
    cur: dict[str, ast.FunctionDef] = {}
    for mod, tree in trees.items():
        for q, f, c, b in _functions(tree, mod):
            cur[q] = f
    mods = set(trees)

    def container(q: str) -> str:
        return q.rsplit(".", 1)[0]

    def known_container(c: str) -> bool:
        return any(c == m or c.startswith(m + ".") for m in mods)

    missing: dict[str, list[str]] = {}
    for q in ref:
        if q not in cur and known_container(container(q)):
            missing.setdefault(container(q), []).append(q)
    if not missing:
        return
    new: dict[str, list[str]] = {}
    for q in cur:
        if q not in ref:
            new.setdefault(container(q), []).append(q)
    # identifiers in use anywhere in the package
    used: dict[str, int] = {}
    defs: dict[str, int] = {}
    for tree in trees.values():
        for n in ast.walk(tree):
            if isinstance(n, ast.Name):
                used[n.id] = used.get(n.id, 0) + 1
            elif isinstance(n, ast.Attribute):
                used[n.attr] = used.get(n.attr, 0) + 1
            elif isinstance(n, (ast.FunctionDef, ast.AsyncFunctionDef, ast.ClassDef)):
                defs[n.name] = defs.get(n.name, 0) + 1
            elif isinstance(n, ast.arg):
                used[n.arg] = used.get(n.arg, 0) + 1
            elif isinstance(n, ast.keyword) and n.arg:
                used[n.arg] = used.get(n.arg, 0) + 1
    pairs: dict[str, str] = {}  # new identifier -> old identifier
    for c, miss in missing.items():
        cand = list(new.get(c, []))
        for mq in miss:
            rl = ref[mq]["locals"]
            same_locals = [nq for nq in cand if local_names(cur[nq]) == rl]
            if len(same_locals) == 1:
                pick = same_locals[0]
            elif len(miss) == 1 and len(cand) == 1 and len(_param_names(cur[cand[0]])) <= len(rl) \
                    and _param_names(cur[cand[0]]) == rl[:len(_param_names(cur[cand[0]]))]:
                pick = cand[0]
            else:
                continue
            old_id, new_id = mq.rsplit(".", 1)[1], pick.rsplit(".", 1)[1]
            if old_id == new_id or defs.get(new_id, 0) != 1 or used.get(old_id, 0) or defs.get(old_id, 0):
                continue
            if new_id.startswith("__") and new_id.endswith("__"):
                continue
            pairs[new_id] = old_id
            cand.remove(pick)
    if not pairs:
        return
    for tree in trees.values():
        for n in ast.walk(tree):
            if isinstance(n, ast.Name) and n.id in pairs:
                n.id = pairs[n.id]
            elif isinstance(n, ast.Attribute) and n.attr in pairs:
                n.attr = pairs[n.attr]
            elif isinstance(n, (ast.FunctionDef, ast.AsyncFunctionDef)) and n.name in pairs:
                n.name = pairs[n.name]
            elif isinstance(n, ast.alias) and n.name in pairs:
                n.name = pairs[n.name]
            elif isinstance(n, ast.Constant) and isinstance(n.value, str) and n.value in pairs:
                n.value = pairs[n.value]
    for k, v in pairs.items():
        log.append(f"R0 function rename recovered: {k} -> {v}")


class _LocalAnnotations(ast.NodeTransformer):
    """G20: inside function bodies `x: T = v` -> `x = v` (the annotation is kept on the node as `_ann`), a bare `x: T` is dropped.
    Class-level annotated assignments (dataclass fields) are left alone."""

    def __init__(self) -> None:
        self.depth = 0

    def visit_ClassDef(self, n: ast.ClassDef):
        d, self.depth = self.depth, 0
        self.generic_visit(n)
        self.depth = d
        return n

    def visit_FunctionDef(self, n):
        self.depth += 1
        self.generic_visit(n)
        self.depth -= 1
        for parent in ast.walk(n):
            for fld in ("body", "orelse", "finalbody"):
                blk = getattr(parent, fld, None)
                if isinstance(blk, list) and not blk and fld == "body":
                    blk.append(ast.Pass())
        return n

    visit_AsyncFunctionDef = visit_FunctionDef

    def visit_AnnAssign(self, n: ast.AnnAssign):
        self.generic_visit(n)
        if self.depth == 0:
            return n
        if n.value is None:
            return None
        a = ast.copy_location(ast.Assign(targets=[n.target], value=n.value), n)
        a._ann = n.annotation  # type: ignore[attr-defined]
        return a


def _is_constant_table(e: ast.AST) -> bool:
    "a tuple / list display of constants, names and attribute chains (a table of other module-level constants): safe to write at its uses"
    return isinstance(e, (ast.Tuple, ast.List)) and 1 <= len(e.elts) <= 12 and all(
        isinstance(x, ast.Constant) or (isinstance(x, (ast.Name, ast.Attribute)) and _dotted(x) is not None) or _is_constant_table(x) for x in e.elts)


def _is_literal_constant(e: ast.AST) -> bool:
    "a literal, or arithmetic / a tuple of literals (10**5, -1, (0, 1)): immutable and effect-free"
    if isinstance(e, ast.Constant):
        return True
    if isinstance(e, ast.UnaryOp) and isinstance(e.op, (ast.USub, ast.UAdd)):
        return _is_literal_constant(e.operand)
    if isinstance(e, ast.BinOp) and isinstance(e.op, (ast.Add, ast.Sub, ast.Mult, ast.Pow, ast.FloorDiv, ast.Mod)):
        return _is_literal_constant(e.left) and _is_literal_constant(e.right)
    if isinstance(e, ast.Tuple):
        return all(_is_literal_constant(x) for x in e.elts)
    return False


def _inline_new_module_constants(tree: ast.Module, modname: str, log: list[str]) -> None:
    """G22: a module-level `NAME = <literal constant>` that is new w.r.t. the reference, bound exactly once in the module and never
    declared `global`, is substituted into every use in the module (a constant hoisted out of an expression)"""
    known = reference().get("module_assigns", {}).get(modname)
    if known is None:
        return
    cands: dict[str, ast.AST] = {}
    for st in tree.body:
        if isinstance(st, (ast.Assign, ast.AnnAssign)) and getattr(st, "value", None) is not None:
            tg = st.targets if isinstance(st, ast.Assign) else [st.target]
            if len(tg) == 1 and isinstance(tg[0], ast.Name) and tg[0].id not in known and (
                    _is_literal_constant(st.value) or (isinstance(st.value, ast.Tuple) and _is_constant_table(st.value))):
                cands[tg[0].id] = st.value
    if not cands:
        return
    stores: dict[str, int] = {}
    for n in ast.walk(tree):
        if isinstance(n, ast.Name) and isinstance(n.ctx, (ast.Store, ast.Del)) and n.id in cands:
            stores[n.id] = stores.get(n.id, 0) + 1
        elif isinstance(n, (ast.Global, ast.Nonlocal)):
            for nm in n.names:
                stores[nm] = stores.get(nm, 0) + 2
        elif isinstance(n, ast.arg) and n.arg in cands:
            stores[n.arg] = stores.get(n.arg, 0) + 2  # shadowed by a parameter somewhere: leave it alone
    consts = {k: v for k, v in cands.items() if stores.get(k, 0) == 1}
    if not consts:
        return
    _Subst(consts).visit(tree)
    for k in consts:
        log.append(f"inlined new module constant {k}")


def new_module_level_helpers(trees: dict[str, ast.Module]) -> dict[str, dict[str, ast.FunctionDef]]:
    "module -> {name: FunctionDef} of module-level functions that are new w.r.t. the reference (candidates for cross-module inlining)"
    ref = reference()["functions"]
    out: dict[str, dict[str, ast.FunctionDef]] = {}
    for mod, tree in trees.items():
        if not any(q.startswith(mod + ".") for q in ref):
            continue
        for st in tree.body:
            if isinstance(st, ast.FunctionDef) and f"{mod}.{st.name}" not in ref and not st.decorator_list \
                    and not any(isinstance(x, (ast.Yield, ast.YieldFrom, ast.Await)) for x in ast.walk(st)):
                out.setdefault(mod, {})[st.name] = st
    return out


def normalize_module(tree: ast.Module, modname: str, log: list[str] | None = None, foreign_helpers: dict[str, dict[str, ast.FunctionDef]] | None = None) -> ast.Module:
    log = log if log is not None else []
    ref = reference()["functions"]
    # helpers that are new in *another* module and imported here by name (`from pkg.mod import _helper`)
    imported: dict[str, ast.FunctionDef] = {}
    if foreign_helpers:
        for st in ast.walk(tree):
            if isinstance(st, ast.ImportFrom) and st.module:
                src = st.module
                for cand_mod, fs in foreign_helpers.items():
                    if cand_mod == src or cand_mod.endswith("." + src) or src.endswith("." + cand_mod.rsplit(".", 1)[-1]) and cand_mod.rsplit(".", 1)[-1] == src.rsplit(".", 1)[-1]:
                        for a in st.names:
                            if a.name in fs and cand_mod != modname:
                                imported[a.asname or a.name] = _Global().visit(copy.deepcopy(fs[a.name]))
    tree = _Global().visit(tree)
    known_mod = any(q.startswith(modname + ".") for q in ref)
    if not known_mod:
        return _fix(tree)
    _expand_new_kwargs_tables(tree, modname, log)
    _namedtuples_to_tuples(tree, modname, log)
    fns = _functions(tree, modname)   # (after the module-level rewrites: they may replace nodes)
    _inline_new_module_constants(tree, modname, log)
    tree = _LocalAnnotations().visit(tree)  # G20 early: bare local annotations would count as extra bindings below
    new = [(q, f, c, b) for q, f, c, b in fns if q not in ref]
    # R1: inline new helpers (only those without decorators other than staticmethod/classmethod)
    if new or imported:
        fn_quals = {q for q, _, _, _ in fns}
        helpers: dict[str, tuple[ast.FunctionDef, bool]] = {k: (v, False) for k, v in imported.items()}
        # a method is a helper only for callers of its own class, and only when no other class of the module defines the name
        # (an override is reached by dynamic dispatch: `self.m()` in the base class may run the subclass's body, and a new
        # `__hash__` / `__eq__` / ... is never called by name at all): such methods are kept as they are and analysed as methods
        method_owners: dict[str, set[str]] = {}
        for q, f, c, b in fns:
            if c is not None and q.rsplit(".", 1)[0] not in fn_quals:
                method_owners.setdefault(f.name, set()).add(c.name)
        per_class: dict[str, dict[str, tuple[ast.FunctionDef, bool]]] = {}
        ref_method_names = {q_.rsplit(".", 1)[-1] for q_ in ref}
        for q, f, c, b in new:
            decos = [_dotted(d) for d in f.decorator_list]
            if any(d not in ("staticmethod", "classmethod") for d in decos):
                continue
            if any(isinstance(x, (ast.Yield, ast.YieldFrom, ast.Await)) for x in ast.walk(f)):
                continue
            if c is None or q.rsplit(".", 1)[0] in fn_quals:
                # module-level function, or a function nested in another function (a closure: called by its bare name; its free
                # variables are the enclosing function's, so inlining it there leaves them bound to the same objects)
                helpers[f.name] = (f, False)
            else:
                if f.name.startswith("__") and f.name.endswith("__") or len(method_owners.get(f.name, ())) > 1 or f.name in ref_method_names:
                    continue  # (a name some class of the package already uses for a method: possibly an override of an inherited method)
                static = "staticmethod" in decos
                own = per_class.setdefault(c.name, {})
                for recv in ("self", "cls"):
                    own[f"{recv}.{f.name}"] = (f, not static)
                helpers[f"{c.name}.{f.name}"] = (f, "classmethod" in decos)
        new_ids = {id(f) for _, f, _, _ in new}
        inliners: dict[str | None, _Inliner] = {}

        def _inl_for(c_):
            key_ = c_.name if c_ is not None else None
            if key_ not in inliners:
                inliners[key_] = _Inliner({**helpers, **per_class.get(key_, {})}, log)
            return inliners[key_]
        inl = _inl_for(None)
        for q, f, c, b in fns:
            if id(f) not in new_ids:
                _uncomprehend_for_helpers(f, _inl_for(c))
                _inl_for(c).run(f)
        for own in per_class.values():
            helpers.update(own)  # for the bookkeeping below (was the helper inlined everywhere?)
        # lambdas in class-level / module-level declarations (field loaders, registries): inline helper calls there too
        def _decl_blocks(body):
            for st_ in body:
                if isinstance(st_, ast.ClassDef):
                    yield from _decl_blocks(st_.body)
                elif isinstance(st_, (ast.Assign, ast.AnnAssign)) and (any(isinstance(x, ast.Lambda) for x in ast.walk(st_)) or any(
                        isinstance(x, (ast.Name, ast.Attribute)) and _dotted(x) in helpers for x in ast.walk(st_))):
                    yield body, st_
        for blk_, st_ in list(_decl_blocks(tree.body)):
            shim = ast.FunctionDef(name="<declaration>", args=ast.arguments(posonlyargs=[], args=[], kwonlyargs=[], kw_defaults=[], defaults=[]),
                                   body=[st_], decorator_list=[], lineno=st_.lineno, col_offset=0)
            inl.run(shim)
            if len(shim.body) == 1:
                blk_[blk_.index(st_)] = shim.body[0]
        # a fully inlined helper is dropped (so that it is not analysed as an anchor-less stray)
        for q, f, c, b in new:
            still_called = False
            keys_f = [k for k, v in helpers.items() if v[0] is f]
            own = {id(x) for x in ast.walk(f)}
            # referenced anywhere else in the module (function bodies, class-level declarations such as `loading_fn=_helper`, registries)?
            for n in ast.walk(tree):
                if id(n) in own:
                    continue
                if isinstance(n, (ast.Name, ast.Attribute)) and isinstance(getattr(n, "ctx", None), ast.Load) and _dotted(n) in keys_f:
                    still_called = True
                    break
            for q2, f2, c2, b2 in ([] if still_called else fns):
                if f2 is f:
                    continue
                for n in ast.walk(f2):
                    if isinstance(n, ast.Call) and _dotted(n.func) in keys_f:
                        still_called = True
                    elif isinstance(n, (ast.Name, ast.Attribute)) and isinstance(getattr(n, "ctx", None), ast.Load) and _dotted(n) in keys_f:
                        still_called = True  # passed as a callable (sort key, map function): not inlined, must stay defined
            if not still_called and (f.name, ) and any(v[0] is f for v in helpers.values()) and f in b:
                b.remove(f)
                if not b:
                    b.append(ast.Pass())
                log.append(f"dropped inlined helper {q}")
    # R2 / R3 on known functions
    for q, f, c, b in _functions(tree, modname):
        if q in ref:
            rl = ref[q]["locals"]
            rh = ref[q].get("heads")
            if _split_tuple_copies(f):
                pass
            _coalesce_copies(f, rl, log)
            _recover_renames_by_position(f, rl, log, rh)
            _propagate_new_locals(f, rl, log)
            if _forward_substitute_single_use(f, rl, log):
                _propagate_new_locals(f, rl, log)
            if _unroll_const_loops(f, log):
                _propagate_new_locals(f, rl, log)
            if _expand_const_table_comprehensions(f, log):
                _propagate_new_locals(f, rl, log)
            if _fuse_comprehensions(f, log):
                _propagate_new_locals(f, rl, log)
            _recover_renames(f, rl, log, rh)
    for _ in range(4):
        before = ast.dump(tree)
        tree = _Global().visit(tree)
        if ast.dump(tree) == before:
            break
    # the global rewrites may have produced new single-definition locals (e.g. branch assignments merged into conditional
    # expressions): one more round of propagation, then the global rewrites once more
    again = False
    for q, f, c, b in _functions(tree, modname):
        if q in ref:
            n0 = len(log)
            _propagate_new_locals(f, ref[q]["locals"], log)
            if _forward_substitute_single_use(f, ref[q]["locals"], log):
                _propagate_new_locals(f, ref[q]["locals"], log)
            again = again or len(log) != n0
    if again:
        for _ in range(3):
            before = ast.dump(tree)
            tree = _Global().visit(tree)
            if ast.dump(tree) == before:
                break
    tree = _LocalAnnotations().visit(tree)
    # G9: canonical spelling of equivalent idioms (sa.astx._Idioms) on every expression of the module
    from sa.astx import _Idioms
    tree = _Idioms().visit(tree)
    return _fix(tree)
