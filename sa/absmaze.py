"""abstract lattice mazes for E15: small grids with every (or a structured sample of) edge sets, their connection lists as abstract
arrays, and graph oracles computed here from the edge set (adjacency, BFS distances, components).  The analysed methods of LatticeMaze
are interpreted on these objects by sa.absobj.AbstractClass; nothing of the repository is executed."""

from __future__ import annotations

import itertools

from sa.absnp import Arr
from sa.fold import Obj

Edge = tuple  # ((r, c), (r', c')) with the lesser endpoint first


def lattice_edges(r: int, c: int) -> list[Edge]:
    return [((i, j), (i + 1, j)) for i in range(r - 1) for j in range(c)] + [((i, j), (i, j + 1)) for i in range(r) for j in range(c - 1)]


def all_graphs(r: int, c: int):
    es = lattice_edges(r, c)
    for bits in itertools.product((0, 1), repeat=len(es)):
        yield (r, c), {e for e, b in zip(es, bits) if b}


def sampled_graphs(r: int, c: int, n: int, seed: int = 0):
    "a deterministic structured sample: empty, full, every single edge, every single missing edge, then pseudo-random edge sets"
    es = lattice_edges(r, c)
    out = [set(), set(es)] + [{e} for e in es] + [set(es) - {e} for e in es]
    x = 1103515245 * (seed + 12345) % (1 << 31)
    while len(out) < n:
        s = set()
        for e in es:
            x = (1103515245 * x + 12345) % (1 << 31)
            if (x >> 16) & 1:
                s.add(e)
        out.append(s)
    return [((r, c), s) for s in out[:n]]


def connection_list(shape, es) -> Arr:
    r, c = shape
    cl = [[[False] * c for _ in range(r)] for _ in range(2)]
    for (a, b) in es:
        d = 0 if b[0] == a[0] + 1 else 1
        cl[d][a[0]][a[1]] = True
    return Arr(cl)


def adjacency(es) -> dict:
    adj: dict = {}
    for u, v in es:
        adj.setdefault(u, set()).add(v)
        adj.setdefault(v, set()).add(u)
    return adj


def bfs(es, a) -> dict:
    adj = adjacency(es)
    dist = {a: 0}
    q = [a]
    while q:
        u = q.pop(0)
        for v in sorted(adj.get(u, ())):
            if v not in dist:
                dist[v] = dist[u] + 1
                q.append(v)
    return dist


def cells(shape) -> list:
    return [(i, j) for i in range(shape[0]) for j in range(shape[1])]


def maze_obj(shape, es, **extra) -> Obj:
    "abstract LatticeMaze: only the connection list is given, everything else (grid_shape, ...) is derived by the analysed properties"
    return Obj("self", {"connection_list": connection_list(shape, es), "generation_meta": None, **extra})


def coord(c) -> Arr:
    return Arr(list(c))


def as_cells(v) -> list:
    "a returned coordinate array / list of coordinates as a list of tuples"
    if isinstance(v, Arr):
        if v.ndim == 1 and v.size == 0:
            return []
        return [tuple(x) for x in v.data]
    return [tuple(x.data) if isinstance(x, Arr) else tuple(x) for x in v]


# ------------------------------------------------------------------------------------------------ fan-out over the cores
_JOB = None


def _run_chunk(chunk):
    return [_JOB(x) for x in chunk]


def parallel_map(job, items: list, workers: int | None = None, min_parallel: int = 64) -> list:
    """[job(x) for x in items], spread over forked worker processes (the index and the abstract class are inherited by fork, nothing is
    pickled but the items and the results); sequential for short lists or when fork is not available"""
    import multiprocessing
    import os

    global _JOB
    workers = workers or int(os.environ.get("SA_WORKERS", 0)) or min(16, os.cpu_count() or 1)
    if len(items) < min_parallel or workers <= 1:
        return [job(x) for x in items]
    try:
        mp = multiprocessing.get_context("fork")
    except ValueError:
        return [job(x) for x in items]
    _JOB = job
    n_chunks = workers * 4
    chunks = [items[i::n_chunks] for i in range(n_chunks)]
    chunks = [c for c in chunks if c]
    with mp.Pool(workers) as pool:
        res = pool.map(_run_chunk, chunks)
    _JOB = None
    # restore the original order
    out = [None] * len(items)
    for ci, r in enumerate(res):
        for k, v in enumerate(r):
            out[ci + k * n_chunks] = v
    return out
