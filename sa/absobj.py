"""E15 -- abstract evaluation of methods / properties of one class over abstract instances

`AbstractClass(index, class_qualname, extra_calls)` evaluates a method or property body with sa.fold.Evaluator, where `self` is
an abstract instance (`Obj`) whose attributes are given; `self.<name>` for a name that is a property / cached_property / plain
method of the class (or a base class in the package) is evaluated recursively from its source.  A few library functions are
modelled on plain Python lists (np.array, np.cumsum, itertools.accumulate, itertools.chain.from_iterable, np.searchsorted).
Nothing of the repository is imported or executed: the evaluator interprets the AST over abstract values chosen by the rule
(symbolic member datasets, symbolic tokens), which makes the verdict independent of the idiom the source uses.
"""

from __future__ import annotations

import ast
import bisect
import itertools
from typing import Any, Callable

from sa import astx as X
from sa.fold import Closure, EvalRaised, Evaluator, Obj, Unknown, safe
from sa.index import dotted_of


def _flat1(xs):
    out = []
    for x in xs:
        out.extend(list(x))
    return out


def _prefix_sums(xs):
    return list(itertools.accumulate(list(xs)))


MODELS: dict[str, Callable] = {
    "warnings.warn": lambda *a, **k: None,
    "np.array": lambda x, *a, **k: list(x) if isinstance(x, (list, tuple)) else x,
    "np.cumsum": lambda x, *a, **k: _prefix_sums(x),
    "np.asarray": lambda x, *a, **k: list(x) if isinstance(x, (list, tuple)) else x,
    "np.cumsum": lambda x, *a, **k: _prefix_sums(x),
    "itertools.accumulate": lambda x, *a, **k: _prefix_sums(x),
    "itertools.chain.from_iterable": lambda x: _flat1(x),
    "itertools.chain": lambda *xs: _flat1(xs),
    "np.searchsorted": lambda arr, v, side="left", **k: (bisect.bisect_left if side == "left" else bisect.bisect_right)(list(arr), v),
    "np.sum": lambda x, *a, **k: sum(x),
    "np.concatenate": lambda xs, *a, **k: _flat1(xs),
}


METHOD_MODELS: dict[str, Callable] = {
    "cumsum": _prefix_sums, "sum": sum, "tolist": list, "copy": list, "astype": list, "max": max, "min": min, "flatten": list, "ravel": list,
}


# the `np` name inside interpreted code: dtype names are inert tags (abstract arrays are untyped), `np.newaxis` is None; functions are MODELS entries
class _IndexExpr:
    """`np.s_[...]` / `np.index_exp[...]`: the subscript itself, as a value"""
    def __init__(self, as_tuple: bool) -> None:
        self.as_tuple = as_tuple

    def __getitem__(self, key):
        return key if isinstance(key, tuple) or not self.as_tuple else (key,)


NP_NAMESPACE = {"__namespace__": True, "newaxis": None, "s_": _IndexExpr(False), "index_exp": _IndexExpr(True), **{t: t for t in ("int8", "int16", "int32", "int64", "uint8", "bool_", "float32", "float64", "intp")}}


def make_name_hook(index, module, hooks_of):
    """free-name resolution for an interpreted fragment of `module`: its functions (closures), its module-level constants (folded from their
    defining expressions, once), names it imports from other modules of the package, and `np`.  `hooks_of()` gives the hooks the nested
    evaluations run with (so that a rule's call models apply inside helpers too)"""
    consts: dict = {}

    def name_hook(name, env, _mod=None):
        mod = _mod or (env.get("__sa_module__") if isinstance(env, dict) else None) or module   # a helper's free names belong to the module it is defined in
        if name in ("np", "numpy"):
            return NP_NAMESPACE
        if name in mod.functions:
            return Closure(mod.functions[name].node, {"__sa_module__": mod})
        if name in mod.assigns:
            key = (mod.name, name)
            if key not in consts:
                consts[key] = Evaluator({**hooks_of(), "__name__": lambda n_, e_, m_=mod: name_hook(n_, e_, m_)}).ev(mod.assigns[name], {})
            return consts[key]
        tgt = mod.imports.get(name)
        if tgt and "." in tgt:
            src, _, leaf = tgt.rpartition(".")
            m2 = index.modules.get(src)
            if m2 is not None and m2 is not mod:
                return name_hook(leaf, env, m2)
        raise Unknown(f"free name `{name}`")
    return name_hook


class AbstractClass:
    def __init__(self, index, cls_q: str, extra_calls: dict[str, Callable] | None = None, len_of: Callable[[Obj], int] | None = None,
                 getitem_of: Callable[[Obj, Any], Any] | None = None, max_steps: int = 2_000_000) -> None:
        self.max_steps = max_steps   # per top-level call (nested method calls draw on the same budget): a fragment that does not terminate is undecided quickly
        self._budget = 0
        self.index = index
        self.cls = index.classes[cls_q]
        self.models = {**MODELS, **(extra_calls or {})}
        self.len_of = len_of
        self.getitem_of = getitem_of
        self.depth = 0
        self.log: list[str] = []
        self._len = self._make_len()
        self._consts: dict = {}
        self.delegates: dict[str, "AbstractClass"] = {}   # Obj.cls -> the abstract class that interprets method calls / properties on such objects

    def _is_me(self, obj) -> bool:
        return isinstance(obj, Obj) and obj.cls in ("self", self.cls.name)

    def _method(self, name: str):
        for q in self.index.mro(self.cls):
            c = self.index.classes.get(q)
            if c is not None and name in c.methods:
                return c.methods[name]
        return None

    def _hooks(self) -> dict:
        def call_hook(ev, node, env):
            d = dotted_of(node.func) or ""
            if d in self.models:
                args = ev._elts(node.args, env)   # starred arguments are expanded
                kwargs = {k.arg: ev.ev(k.value, env) for k in node.keywords if k.arg}
                try:
                    return self.models[d](*args, **kwargs)
                except (Unknown, EvalRaised):
                    raise
                except Exception as e:
                    raise Unknown(f"model of {d}: {e}")
            if d == "len" and len(node.args) == 1:
                v = ev.ev(node.args[0], env)
                if isinstance(v, Obj):
                    if v is env.get("self") or self._is_me(v):
                        return self.call(v, "__len__", [])
                    if self.len_of is not None:
                        return self.len_of(v)
                    raise Unknown("len of an abstract object")
                return len(v)
            # calls of the class's own static / class methods by the class name: `Namespace.helper(...)`
            if isinstance(node.func, ast.Attribute) and isinstance(node.func.value, ast.Name) and node.func.value.id == self.cls.name and node.func.value.id not in env \
                    and self._method(node.func.attr) is not None:
                args = [ev.ev(a, env) for a in node.args]
                kwargs = {k.arg: ev.ev(k.value, env) for k in node.keywords if k.arg}
                return self.call(None, node.func.attr, args, kwargs)
            # array methods on modelled lists
            if isinstance(node.func, ast.Attribute) and node.func.attr in METHOD_MODELS:
                recv = ev.ev(node.func.value, env)
                if isinstance(recv, (list, tuple)):
                    return METHOD_MODELS[node.func.attr](recv)
            # self.method(args)
            if isinstance(node.func, ast.Attribute):
                recv = ev.ev(node.func.value, env)
                if isinstance(recv, Obj) and self._is_me(recv) and self._method(node.func.attr) is not None:
                    args = [ev.ev(a, env) for a in node.args]
                    kwargs = {k.arg: ev.ev(k.value, env) for k in node.keywords if k.arg}
                    return self.call(recv, node.func.attr, args, kwargs)
                if isinstance(recv, Obj) and recv.cls in self.delegates:
                    args = [ev.ev(a, env) for a in node.args]
                    kwargs = {k.arg: ev.ev(k.value, env) for k in node.keywords if k.arg}
                    return self.delegates[recv.cls].call(recv, node.func.attr, args, kwargs)
            return NotImplemented

        def getattr_hook(obj, attr):
            if obj.cls in self.delegates and not self._is_me(obj):
                return self.delegates[obj.cls]._hooks()["__getattr__"](obj, attr)
            if self._is_me(obj):
                m = self._method(attr)
                if m is not None:
                    kinds = [d.name.rsplit(".", 1)[-1] for d in m.decorators]
                    if "property" in kinds or "cached_property" in kinds:
                        return self.call(obj, attr, [])
                # `name = property(lambda self: ...)` at class level
                for q in self.index.mro(self.cls):
                    c = self.index.classes.get(q)
                    v = c.assigns.get(attr) if c is not None else None
                    if isinstance(v, ast.Call) and dotted_of(v.func) == "property" and len(v.args) == 1 and isinstance(v.args[0], ast.Lambda):
                        ev_ = Evaluator(self._hooks())
                        return ev_.call(Closure(v.args[0], {}), [obj], {})
            raise Unknown(f"attribute {attr} of abstract {obj.cls}")

        def name_hook(name, env, _mod=None):
            "free names of the analysed methods: functions / constants of the class's module, names it imports from other modules of the package, `np`"
            mod = _mod or (env.get("__sa_module__") if isinstance(env, dict) else None) or self.cls.module
            if name in ("np", "numpy"):
                return NP_NAMESPACE
            if name in mod.functions:
                return Closure(mod.functions[name].node, {"__sa_module__": mod})
            if name in mod.assigns:
                key = (mod.name, name)
                if key not in self._consts:
                    self._consts[key] = Evaluator({**hooks, "__name__": lambda n_, e_, m_=mod: name_hook(n_, e_, m_)}).ev(mod.assigns[name], {})
                return self._consts[key]
            tgt = mod.imports.get(name)
            if tgt and "." in tgt:
                src, _, leaf = tgt.rpartition(".")
                m2 = self.index.modules.get(src)
                if m2 is not None and m2 is not mod:
                    return name_hook(leaf, env, m2)
            raise Unknown(f"free name `{name}`")

        hooks = {"__call__": call_hook, "__getattr__": getattr_hook, "__name__": name_hook}
        if self.getitem_of is not None:
            hooks["__getitem__"] = self.getitem_of
        return hooks

    def _make_len(self):
        @safe
        def _len(v):
            if isinstance(v, Obj):
                if self._is_me(v):
                    return self.call(v, "__len__", [])
                if self.len_of is not None:
                    return self.len_of(v)
                raise Unknown("len of an abstract object")
            return len(v)
        return _len

    def call(self, self_obj: Obj, name: str, args: list, kwargs: dict | None = None) -> Any:
        m = self._method(name)
        if m is None:
            raise Unknown(f"no method {name}")
        self.depth += 1
        if self.depth > 12:
            raise Unknown("recursion depth")
        if self.depth == 1:
            self._budget = self.max_steps
        try:
            params = m.params()
            kinds = [d.name.rsplit(".", 1)[-1] for d in m.decorators]
            env = {"len": self._len}
            own = params if "staticmethod" in kinds else params[1:]
            if "staticmethod" not in kinds:
                env[params[0]] = self_obj
            for p in own:
                d_ = m.param_default(p)
                if d_ is not None:
                    env[p] = Evaluator(self._hooks()).ev(d_, {})
            for p, v in zip(own, args):
                env[p] = v
            for p, v in (kwargs or {}).items():
                if p not in own:
                    raise Unknown(f"unexpected keyword argument {p}")
                env[p] = v
            missing = [p for p in own if p not in env]
            if missing:
                raise EvalRaised("TypeError", f"missing required argument(s) {missing}")
            ev_ = Evaluator(self._hooks(), max_steps=max(self._budget, 1))
            try:
                return ev_.run_body(X.body_wo_doc(m.node), env)
            finally:
                self._budget -= ev_.steps
        finally:
            self.depth -= 1
