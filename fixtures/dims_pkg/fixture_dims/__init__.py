"""positive fixture for E13 (axis-extent agreement): never imported, only parsed.

`bad_*` functions confuse row/column extents (each must be flagged on every run), `good_*` must stay unflagged."""
import numpy as np

NEIGHBORS_MASK = np.array([[0, 1], [0, -1], [1, 0], [-1, 0]])


class M:
    def bad_vector_vs_one_axis(self, c: "Coord"):
        return [n for n in (c + NEIGHBORS_MASK) if np.all((0 <= n) & (n < self.connection_list.shape[-1]))]

    def bad_swapped_component(self, pos):
        return pos[0] < self.grid_shape[1] and pos[1] < self.grid_shape[0]

    def bad_edges(self, sorted_edges, connection_list):
        return (sorted_edges[:, 1, :] < connection_list.shape[1]).all(axis=1)

    def bad_flat_index(self, c, grid_shape):
        return int(c[0]) * grid_shape[0] + int(c[1])

    def good_flat_index(self, c, grid_shape):
        return int(c[0]) * grid_shape[1] + int(c[1])

    def good_components(self, pos):
        r, c = pos
        return 0 <= r < self.grid_shape[0] and 0 <= c < self.connection_list.shape[2] and pos[1] < self.grid_shape[1]

    def good_whole_shape(self, path):
        return np.all((0 <= path) & (path < self.grid_shape))
