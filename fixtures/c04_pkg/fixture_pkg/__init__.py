"""positive fixture for the expected-zero rule C04.E1 (parsed, never imported):
a generator that draws from a module-level Generator object which no config reseeds"""
import random

import numpy as np

numpy_rng = np.random.default_rng(42)


def gen_fixture(grid_shape):
    start = numpy_rng.integers(0, grid_shape[0])  # must be flagged: unseeded source
    other = random.Random().randint(0, 3)  # must be flagged: fresh Random object
    return start + other + np.random.randint(0, 2)  # reseeded class: fine
