#!/bin/bash
# usage: show.sh R02 3 C02 C03 ...   -- print the refactor diff, then the non-holding obligations of the given checks
D=/tmp/wt/out/$1/refactor_$2.diff
cat $D | grep -v "^index \|^diff " | cut -c1-200
echo "=================== ALARMS"
A=$1; B=$2; shift 2
CUT=${CUT:-900} /verif/tools/try_one.sh $A $B "$@" | grep -v "HOLDS"
