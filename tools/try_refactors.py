"""behaviour-preserving refactorings written by independent sub-agents: every check must stay silent on each of them

  try_refactors.py intake   copy /tmp/wt/out/R<id>/refactor_<k>.diff (+ notes) into /verif/refactors/<id>_<k>/ (only those
                            listed as confirmed in /tmp/wt/confirm/R<id>_<k>.json: applies, whole suite passes)
  try_refactors.py [ids]    apply each kept refactoring to /repo, run every property's quick check, undo; any non-zero
                            exit is a false alarm (exit 1) or an unabsorbed shape (exit 2); writes refactors/README.md
"""
import glob
import json
import os
import shutil
import subprocess
import sys
from concurrent.futures import ThreadPoolExecutor

ROOT = os.path.dirname(os.path.dirname(os.path.abspath(__file__)))
PY = "/venv/bin/python"
RDIR = os.path.join(ROOT, "refactors")
props = [json.loads(l)["id"] for l in open(os.path.join(ROOT, "properties.jsonl"))]
claimed = [p for p in props if os.path.exists(os.path.join(ROOT, "sa", "rules", p.lower() + ".py"))]


def run_check(p: str):
    r = subprocess.run([PY, "-m", "sa.check", "--property", p, "--evidence-dir", f"/tmp/.ref_ev/{p}"], cwd=ROOT, capture_output=True, text=True)
    rules = sorted({ln.split("rule=")[1].split()[0] for ln in r.stdout.splitlines() if "rule=" in ln})
    return r.returncode, rules


def intake() -> None:
    for cf in sorted(glob.glob("/tmp/wt/confirm/RC*_*.json")):
        c = json.load(open(cf))
        key = f"{c['id'][1:]}_{c['k']}"
        d = os.path.join(RDIR, key)
        if os.path.exists(d):
            continue
        if not (c["apply_exit"] == 0 and c["suite_exit"] == 0 and "3199 passed" in c["suite_summary"]):
            print("NOT CONFIRMED", key, c)
            continue
        os.makedirs(d)
        shutil.copy(f"/tmp/wt/out/{c['id']}/refactor_{c['k']}.diff", os.path.join(d, "patch.diff"))
        n = f"/tmp/wt/out/{c['id']}/notes_{c['k']}.md"
        if os.path.exists(n):
            shutil.copy(n, os.path.join(d, "notes.md"))
        json.dump({"id": key, "anchored_in_property": c["id"][1:], "confirmed_by_me": {
            "how": ("tools/confirm_refactor_group.sh: fresh scratch worktree; this diff applies on its own to the clean HEAD; whole suite run once with the five "
                    "refactorings of the property stacked") if c.get("confirmed_as_group") else "tools/confirm_refactor.sh: fresh scratch worktree, git apply, whole suite",
            "suite_with_change": c["suite_summary"],
            "diffstat": c["diffstat"]}}, open(os.path.join(d, "meta.json"), "w"), indent=1)
        print("INTAKE", key)


def main(only: list[str]) -> int:
    assert subprocess.run(["git", "-C", "/repo", "status", "--porcelain"], capture_output=True, text=True).stdout.strip() == ""
    rows = []
    for d in sorted(glob.glob(os.path.join(RDIR, "C*_*"))):
        key = os.path.basename(d)
        mf = os.path.join(d, "meta.json")
        meta = json.load(open(mf))
        if not only or any(key.startswith(o) for o in only):
            a = subprocess.run(["git", "-C", "/repo", "apply", os.path.join(d, "patch.diff")], capture_output=True, text=True)
            if a.returncode != 0:
                print(key, "DOES NOT APPLY", a.stderr[:100])
                continue
            try:
                with ThreadPoolExecutor(8) as ex:
                    res = dict(zip(claimed, ex.map(run_check, claimed)))
            finally:
                subprocess.run(["git", "-C", "/repo", "checkout", "--", "."], check=True)
            bad = {p: {"exit": c, "rules": r} for p, (c, r) in res.items() if c != 0}
            meta["checks_raising"] = bad
            json.dump(meta, open(mf, "w"), indent=1)
            print(key, "OK" if not bad else f"ALARM {bad}")
        rows.append((key, meta.get("checks_raising")))
    with open(os.path.join(RDIR, "README.md"), "w") as f:
        f.write("# Behaviour-preserving refactorings (written by independent sub-agents; whole suite passes with each)\n\n"
                "Every check is expected to exit 0 with the refactoring applied to /repo.  Exit 1 = false alarm, exit 2 = a shape the\n"
                "extractors do not absorb (reported as analysis-broken, not as a violation).\n\n| refactoring | checks not exiting 0 |\n|---|---|\n")
        for key, bad in rows:
            txt = "not run" if bad is None else ("-" if not bad else "; ".join(f"{p} exit {v['exit']} ({', '.join(v['rules'])})" for p, v in bad.items()))
            f.write(f"| {key} | {txt} |\n")
        n1 = sum(1 for _, b in rows if b and any(v["exit"] == 1 for v in b.values()))
        n2 = sum(1 for _, b in rows if b and not any(v["exit"] == 1 for v in b.values()))
        f.write(f"\n{len(rows)} refactorings; {n1} raise a false alarm (exit 1), {n2} more are reported as analysis-broken (exit 2).\n")
    shutil.rmtree("/tmp/.ref_ev", ignore_errors=True)
    return 0


if __name__ == "__main__":
    if sys.argv[1:2] == ["intake"]:
        intake()
        sys.exit(0)
    sys.exit(main(sys.argv[1:]))
