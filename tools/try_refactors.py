"""apply each behaviour-preserving refactoring written by the refactor sub-agents to /repo, run every property's check, undo;
report every non-zero exit (a false alarm)"""
import glob, json, os, subprocess, sys
ROOT = os.path.dirname(os.path.dirname(os.path.abspath(__file__)))
PY = "/venv/bin/python"
props = [json.loads(l)["id"] for l in open(os.path.join(ROOT, "properties.jsonl"))]
claimed = [p for p in props if os.path.exists(os.path.join(ROOT, "sa", "rules", p.lower() + ".py"))]
only = sys.argv[1:] 
assert subprocess.run(["git", "-C", "/repo", "status", "--porcelain"], capture_output=True, text=True).stdout.strip() == ""
res = {}
for d in sorted(glob.glob("/tmp/wt/out/R*/refactor_*.diff")):
    key = d.split("/")[-2] + "_" + d.split("_")[-1].split(".")[0]
    if only and not any(key.startswith(o) for o in only):
        continue
    a = subprocess.run(["git", "-C", "/repo", "apply", d], capture_output=True, text=True)
    if a.returncode != 0:
        print(key, "DOES NOT APPLY", a.stderr[:100]); continue
    try:
        bad = {}
        for p in claimed:
            r = subprocess.run([PY, "-m", "sa.check", "--property", p, "--evidence-dir", "/tmp/.ref_ev"], cwd=ROOT, capture_output=True, text=True)
            if r.returncode != 0:
                rules = sorted({ln.split("rule=")[1].split()[0] for ln in r.stdout.splitlines() if "rule=" in ln})
                bad[p] = (r.returncode, rules)
        res[key] = bad
        print(key, "OK" if not bad else f"FALSE ALARM {bad}")
    finally:
        subprocess.run(["git", "-C", "/repo", "checkout", "--", "."], check=True)
json.dump(res, open("/tmp/wt/refactor_results.json", "w"), indent=1)
n_bad = sum(1 for v in res.values() if v)
print(f"{len(res)} refactorings tried, {n_bad} raise an alarm")
