"""quick parallel re-evaluation of both corpora on scratch copies of /repo (never touches /repo itself): every seeded change must be reported by
its own property's check (exit 1), every refactoring must leave all checks silent (exit 0).  usage: fast_eval.py seeded|refactors [all-props]"""
import glob, json, os, shutil, subprocess, sys, tempfile
from concurrent.futures import ProcessPoolExecutor

ROOT = os.path.dirname(os.path.dirname(os.path.abspath(__file__)))
PY = "/venv/bin/python"
PROPS = [p for p in (json.loads(l)["id"] for l in open(os.path.join(ROOT, "properties.jsonl"))) if os.path.exists(os.path.join(ROOT, "sa", "rules", p.lower() + ".py"))]


def one(job):
    kind, key, patch, props = job
    tmp = tempfile.mkdtemp(prefix="fe_", dir="/tmp")
    try:
        shutil.copytree("/repo/maze_dataset", os.path.join(tmp, "maze_dataset"))
        a = subprocess.run(["git", "apply", "--unsafe-paths", "--directory", tmp, patch], cwd=tmp, capture_output=True, text=True)
        if a.returncode != 0:
            a = subprocess.run(["patch", "-p1", "-s", "-i", patch], cwd=tmp, capture_output=True, text=True)
            if a.returncode != 0:
                return key, "APPLY-FAILED", a.stderr[:100]
        out = {}
        for p in props:
            r = subprocess.run([PY, "-m", "sa.check", "--property", p, "--repo", tmp, "--evidence-dir", os.path.join(tmp, "ev")], cwd=ROOT, capture_output=True, text=True,
                               env={**os.environ, "SA_WORKERS": "1"})
            out[p] = r.returncode
        return key, kind, out
    finally:
        shutil.rmtree(tmp, ignore_errors=True)


def main():
    kind = sys.argv[1]
    jobs = []
    if kind == "seeded":
        for mf in sorted(glob.glob(os.path.join(ROOT, "seeded", "C*_*", "meta.json"))):
            m = json.load(open(mf))
            jobs.append(("seeded", m["id"], os.path.join(os.path.dirname(mf), "patch.diff"), [m["breaks_property"]]))
    else:
        for d in sorted(glob.glob(os.path.join(ROOT, "refactors", "C*_*"))):
            key = os.path.basename(d)
            jobs.append(("refactor", key, os.path.join(d, "patch.diff"), PROPS if len(sys.argv) > 2 else [key.split("_")[0]]))
    bad = []
    with ProcessPoolExecutor(16) as ex:
        for key, k, out in ex.map(one, jobs):
            if k == "APPLY-FAILED":
                bad.append((key, k, out))
            elif k == "seeded" and any(v != 1 for v in out.values()):
                bad.append((key, "NOT REPORTED", out))
            elif k == "refactor" and any(v != 0 for v in out.values()):
                bad.append((key, "ALARM", {p: v for p, v in out.items() if v}))
    print(len(jobs), kind, "evaluated;", len(bad), "unexpected")
    for b in bad:
        print(" ", b)


main()
