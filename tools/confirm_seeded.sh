#!/bin/bash
# usage: confirm_seeded.sh C08 1   -- independently confirm a sub-agent's mutation in a fresh scratch worktree
# (demo fails with the change, passes without; whole suite passes with the change); removes the worktree afterwards
set -u
ID=$1; K=$2
OUT=/tmp/wt/out/$ID
WT=/tmp/cw/${ID}_$K
RES=/tmp/wt/confirm/${ID}_$K.json
mkdir -p /tmp/cw /tmp/wt/confirm
git -C /repo worktree remove --force $WT >/dev/null 2>&1
git -C /repo worktree add -q --detach $WT HEAD || exit 3
cd $WT
PYTHONPATH=$WT timeout 300 /venv/bin/python $OUT/demo_$K.py > $WT/.demo_clean.log 2>&1; DEMO_CLEAN=$?
git apply $OUT/mutation_$K.diff; APPLY=$?
PYTHONPATH=$WT timeout 300 /venv/bin/python $OUT/demo_$K.py > $WT/.demo_mut.log 2>&1; DEMO_MUT=$?
PYTHONPATH=$WT timeout 3000 /venv/bin/python -m pytest -q -p no:cacheprovider --timeout=900 > $WT/.suite.log 2>&1; SUITE=$?
SUMMARY=$(tail -1 $WT/.suite.log | tr -d '"')
FILES=$(git diff --stat | tail -1 | tr -d '"')
DEMO_TAIL=$(tail -3 $WT/.demo_mut.log | tr -d '"\\' | tr '\n' ' ' | cut -c1-300)
cat > $RES <<JSON
{"id": "$ID", "k": $K, "apply_exit": $APPLY, "demo_clean_exit": $DEMO_CLEAN, "demo_mutated_exit": $DEMO_MUT, "suite_exit": $SUITE, "suite_summary": "$SUMMARY", "diffstat": "$FILES", "demo_mutated_tail": "$DEMO_TAIL"}
JSON
cd /; git -C /repo worktree remove --force $WT
cat $RES
