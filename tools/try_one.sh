#!/bin/bash
# usage: try_one.sh R01 1 [PROP...]  -- apply a refactor diff, run the checks of the given properties, undo
D=/tmp/wt/out/$1/refactor_$2.diff; shift 2
git -C /repo apply $D || exit 3
for p in "$@"; do /venv/bin/python -m sa.check --property $p --evidence-dir /tmp/.ref_ev | grep -E "rule=|^C[0-9]+:|ANALYSIS" | cut -c1-${CUT:-420}; done
git -C /repo checkout -- .
