#!/bin/bash
# usage: try_patch.sh <patch file> [PROP ...]   -- apply a patch to /repo, run the given (default: all claimed) checks, undo
D=$1; shift
PROPS="$@"; [ -z "$PROPS" ] && PROPS="C01 C02 C03 C04 C05 C06 C07 C08 C09 C10 C11 C12 C13 C14 C15 C16 C17 C18 C20"
git -C /repo apply $D || exit 3
for p in $PROPS; do (cd /verif; /venv/bin/python -m sa.check --property $p --evidence-dir /tmp/.try_ev/$p > /tmp/.try_$p.log 2>&1; echo "$p exit=$?" >> /tmp/.try_$p.log) & done; wait
git -C /repo checkout -- .
for p in $PROPS; do if ! grep -q "exit=0" /tmp/.try_$p.log; then grep -E "rule=|ANALYSIS|exit=" /tmp/.try_$p.log | cut -c1-${CUT:-500}; fi; done
rm -rf /tmp/.try_ev /tmp/.try_C*.log
