#!/bin/bash
# run every claimed property's quick check on /repo as it is; print only the checks that do not hold
cd /verif
for p in C01 C02 C03 C04 C05 C06 C07 C08 C09 C10 C11 C12 C13 C14 C15 C16 C17 C18 C20; do
  ( /venv/bin/python -m sa.check --property $p --tier quick > /tmp/.q_$p.log 2>&1; echo "exit=$?" >> /tmp/.q_$p.log ) &
done >/dev/null 2>&1
wait
bad=0
for p in C01 C02 C03 C04 C05 C06 C07 C08 C09 C10 C11 C12 C13 C14 C15 C16 C17 C18 C20; do
  if ! grep -q "exit=0" /tmp/.q_$p.log; then bad=1; grep -E "rule=|ANALYSIS|exit=|^C[0-9]+:" /tmp/.q_$p.log | cut -c1-${CUT:-400}; fi
done
[ $bad = 0 ] && echo "all 19 quick checks exit 0"
rm -f /tmp/.q_C*.log
