#!/bin/bash
# usage: confirm_refactor_group.sh RC08 15 16 17 18 19 -- confirm a group of a sub-agent's refactorings together: each applies on its own to the
# clean HEAD (git apply --check), all of them stacked apply (with reduced context where hunks are adjacent) and the whole suite passes once with
# all of them; writes one json per member (used when there is no time for one suite run per refactoring)
set -u
ID=$1; shift
OUT=/tmp/wt/out/$ID
WT=/tmp/cw/${ID}_group
mkdir -p /tmp/cw /tmp/wt/confirm
git -C /repo worktree remove --force $WT >/dev/null 2>&1
git -C /repo worktree add -q --detach $WT HEAD || exit 3
cd $WT
declare -A ALONE
for K in "$@"; do git apply --check $OUT/refactor_$K.diff; ALONE[$K]=$?; done
STACK=0
for K in "$@"; do git apply $OUT/refactor_$K.diff 2>/dev/null || git apply -C1 $OUT/refactor_$K.diff || STACK=1; done
PYTHONPATH=$WT timeout 3000 /venv/bin/python -m pytest -q -p no:cacheprovider --timeout=900 > $WT/.suite.log 2>&1; SUITE=$?
SUMMARY=$(tail -1 $WT/.suite.log | tr -d '"')
for K in "$@"; do
cat > /tmp/wt/confirm/${ID}_$K.json <<JSON
{"id": "$ID", "k": $K, "apply_exit": ${ALONE[$K]}, "stacked_apply_exit": $STACK, "suite_exit": $SUITE, "suite_summary": "$SUMMARY", "diffstat": "suite run once with refactorings $* of $ID stacked", "confirmed_as_group": true}
JSON
done
cd /; git -C /repo worktree remove --force $WT
