"""write the 'clauses as implemented' table (between markers in DESIGN.md) from the rule modules"""
import importlib, json, os, re, sys
ROOT = os.path.dirname(os.path.dirname(os.path.abspath(__file__)))
sys.path.insert(0, ROOT)
props = [json.loads(l) for l in open(os.path.join(ROOT, "properties.jsonl"))]
lines = ["| property | clause | floor | what the clause decides |", "|---|---|---|---|"]
tot = 0
for p in props:
    try:
        mod = importlib.import_module(f"sa.rules.{p['id'].lower()}")
    except ModuleNotFoundError:
        lines.append(f"| {p['id']} | — | — | not applicable (section 5) |")
        continue
    for r in mod.RULES:
        tot += 1
        lines.append(f"| {p['id']} | {r.id} | {r.floor} | {r.doc} |")
table = "\n".join(lines) + f"\n\n{tot} clause rules in {sum(1 for p in props if os.path.exists(os.path.join(ROOT, 'sa', 'rules', p['id'].lower() + '.py')))} rule modules.\n"
d = open(os.path.join(ROOT, "DESIGN.md")).read()
a, b = "<!-- CLAUSES-BEGIN -->", "<!-- CLAUSES-END -->"
if a in d:
    d = d[: d.index(a) + len(a)] + "\n" + table + d[d.index(b):]
    open(os.path.join(ROOT, "DESIGN.md"), "w").write(d)
print(table[-200:])
