"""assemble /verif/seeded/<id>_<k>/ from the sub-agents' confirmed mutations and record which check catches each

For every mutation whose independent confirmation (tools/confirm_seeded.sh, fresh scratch worktree) shows
demo passes on the clean tree, fails with the change, and the whole suite passes with the change:
  copy patch.diff / demo.py / notes.md, apply the patch to /repo, run the property's quick check (and every other
  property's check, to see cross-detections), undo the patch, write meta.json.
"""
import glob
import json
import os
import shutil
import subprocess
import sys

ROOT = os.path.dirname(os.path.dirname(os.path.abspath(__file__)))
OUT = "/tmp/wt/out"
CONF = "/tmp/wt/confirm"
PY = "/venv/bin/python"

# how each mutation fared against the checks as they were when the mutation was first tried (recorded by hand at that time)
FIRST_TRY = {
    "C01_1": "missed (B3 did not judge the guard of the erase branch) -> added the `k is not None` guard clause",
    "C01_2": "caught (C01.B7)", "C02_1": "caught (C02.S4)", "C02_2": "caught (C02.S2)",
    "C03_1": "missed by C03 (no solver clause) and reported as ANALYSIS-ERROR by C02.S6 -> S6 locates every skip test; C03.P7 re-judges the solver slots",
    "C03_2": "caught (C03.P3)",
    "C04_1": "missed (seed replacement under truthiness) -> added the `self.seed is None` guard clause to C04.E2", "C04_2": "caught (C04.E1)",
    "C05_1": "missed -> added C05.F9 (allocation sizes agree with the enumeration)", "C05_2": "missed -> C05.F2 now requires every constructor component to be read back",
    "C06_1": "missed by C06 (caught by C13.V1) -> the is_connection slot is also judged under C06.T4", "C06_2": "caught (C06.T8)",
    "C07_1": "caught (C07.L6)", "C07_2": "caught (C07.L4)",
    "C08_1": "reported as ANALYSIS-ERROR (unfamiliar distance term) -> located-slot policy: an identified slot outside the accepted set is a VIOLATION",
    "C08_2": "missed (tabulated in-place exception was too wide) -> the mutating loop must run over the result variable",
    "C09_1": "caught (C09.R4)", "C09_2": "reported as ANALYSIS-ERROR (np.array_equiv) -> located-slot policy in C09.R1",
    "C10_1": "caught (C10.X3; rule written after the agent's summary had been read)", "C10_2": "caught (C10.X5; rule written after the agent's summary had been read)",
    "C11_1": "caught (C11.K2)", "C11_2": "caught (C11.K1)", "C12_1": "caught (C12.M1)", "C12_2": "caught (C12.M4)",
    "C13_1": "caught (C13.V1)", "C13_2": "caught (C13.V2)", "C14_1": "caught (C14.W6)", "C14_2": "caught (C14.W5)",
    "C17_1": "caught (C17.Z3)", "C17_2": "caught (C17.Z5)", "C18_1": "caught (C18.H1)",
    "C15_1": "caught (C15.N4)", "C15_2": "caught (C15.N3)", "C20_2": "caught (C20.Y4)",
    "C20_1": "missed -> added the 'only an empty path is skipped' clause to C20.Y3",
    "C16_1": "missed (a cached index table; borderline: needs a member to change after first use) -> C16.Q2 requires the lengths tables to be plain properties",
    "C16_2": "caught (C16.Q2)",
    "C18_2": "missed -> added the identity-serialization clause for the option dictionaries to C18.H1",
}


def run_check(prop: str) -> tuple[int, list[str]]:
    r = subprocess.run([PY, "-m", "sa.check", "--property", prop, "--evidence-dir", "/tmp/.seeded_ev"], cwd=ROOT, capture_output=True, text=True)
    rules = sorted({ln.split("rule=")[1].split()[0] for ln in r.stdout.splitlines() if ln.strip().startswith("rule=")})
    return r.returncode, rules


def main() -> int:
    props = [json.loads(l)["id"] for l in open(os.path.join(ROOT, "properties.jsonl"))]
    claimed = [p for p in props if os.path.exists(os.path.join(ROOT, "sa", "rules", p.lower() + ".py"))]
    rows = []
    assert subprocess.run(["git", "-C", "/repo", "status", "--porcelain"], capture_output=True, text=True).stdout.strip() == "", "/repo not clean"
    for cf in sorted(glob.glob(os.path.join(CONF, "C*_*.json"))):
        c = json.load(open(cf))
        key = f"{c['id']}_{c['k']}"
        ok = c["apply_exit"] == 0 and c["demo_clean_exit"] == 0 and c["demo_mutated_exit"] != 0 and c["suite_exit"] == 0 and "3199 passed" in c["suite_summary"]
        if not ok:
            print("NOT CONFIRMED", key, c)
            continue
        d = os.path.join(ROOT, "seeded", key)
        os.makedirs(d, exist_ok=True)
        shutil.copy(os.path.join(OUT, c["id"], f"mutation_{c['k']}.diff"), os.path.join(d, "patch.diff"))
        shutil.copy(os.path.join(OUT, c["id"], f"demo_{c['k']}.py"), os.path.join(d, "demo.py"))
        notes = ""
        np_ = os.path.join(OUT, c["id"], f"notes_{c['k']}.md")
        if os.path.exists(np_):
            shutil.copy(np_, os.path.join(d, "notes.md"))
            notes = open(np_).read()
        subprocess.run(["git", "-C", "/repo", "apply", os.path.join(d, "patch.diff")], check=True)
        try:
            own = run_check(c["id"])
            others = {}
            for p in claimed:
                if p != c["id"]:
                    code, rules = run_check(p)
                    if code != 0:
                        others[p] = {"exit": code, "rules": rules}
        finally:
            subprocess.run(["git", "-C", "/repo", "checkout", "--", "."], check=True)
        meta = {
            "id": key, "breaks_property": c["id"],
            "needs_to_manifest": notes[:1500],
            "confirmed_by_me": {
                "how": "tools/confirm_seeded.sh: fresh scratch git worktree of /repo under /tmp/cw, demo on the clean tree, git apply, demo, whole suite "
                       "(/venv/bin/python -m pytest -q -p no:cacheprovider --timeout=900), worktree removed",
                "demo_exit_on_clean_tree": c["demo_clean_exit"], "demo_exit_with_change": c["demo_mutated_exit"],
                "suite_with_change": c["suite_summary"], "diffstat": c["diffstat"], "demo_failure_tail": c["demo_mutated_tail"],
            },
            "detection": {
                "own_property_check_exit": own[0], "own_property_rules_reporting": own[1],
                "other_property_checks_reporting": others,
                "against_the_checks_as_first_tried": FIRST_TRY.get(key, "not recorded"),
                "how_run": "git -C /repo apply seeded/<id>/patch.diff; /venv/bin/python -m sa.check --property <P>; git -C /repo checkout -- .",
            },
        }
        json.dump(meta, open(os.path.join(d, "meta.json"), "w"), indent=1)
        rows.append((key, own[0], own[1], sorted(others), FIRST_TRY.get(key, "")))
        print(key, "exit", own[0], own[1], "others:", sorted(others))
    with open(os.path.join(ROOT, "seeded", "README.md"), "w") as f:
        f.write("# Seeded changes (written by independent sub-agents, confirmed by tools/confirm_seeded.sh)\n\n")
        f.write("| change | own check exit | rules reporting | also reported by | against the checks as first tried |\n|---|---|---|---|---|\n")
        for key, code, rules, oth, first in rows:
            f.write(f"| {key} | {code} | {', '.join(rules)} | {', '.join(oth)} | {first} |\n")
    shutil.rmtree("/tmp/.seeded_ev", ignore_errors=True)
    return 0


if __name__ == "__main__":
    sys.exit(main())
