"""maintain /verif/seeded/<id>_<k>/ and record which check catches each change

  gen_seeded.py intake   copy every newly confirmed change (tools/confirm_seeded.sh wrote /tmp/wt/confirm/<id>_<k>.json:
                         demo passes on the clean tree, fails with the change, whole suite passes with the change) from
                         /tmp/wt/out/<id>/ into seeded/<id>_<k>/ and write its meta.json (first-try verdict = the
                         verdict of the checks as they are at intake time, before any strengthening)
  gen_seeded.py eval     for every change kept under seeded/: apply patch.diff to /repo, run the property's quick check
                         and every other property's check, undo the patch; refresh meta.json["detection"] and README.md

Nothing here is part of a registered check; /repo is restored (git checkout -- .) after every patch.
"""
import glob
import json
import os
import shutil
import subprocess
import sys
from concurrent.futures import ThreadPoolExecutor

ROOT = os.path.dirname(os.path.dirname(os.path.abspath(__file__)))
OUT = "/tmp/wt/out"
CONF = "/tmp/wt/confirm"
PY = "/venv/bin/python"


def claimed_props() -> list[str]:
    props = [json.loads(l)["id"] for l in open(os.path.join(ROOT, "properties.jsonl"))]
    return [p for p in props if os.path.exists(os.path.join(ROOT, "sa", "rules", p.lower() + ".py"))]


def run_check(prop: str) -> tuple[int, list[str]]:
    ev = f"/tmp/.seeded_ev/{prop}"
    r = subprocess.run([PY, "-m", "sa.check", "--property", prop, "--evidence-dir", ev], cwd=ROOT, capture_output=True, text=True)
    rules = sorted({ln.split("rule=")[1].split()[0] for ln in r.stdout.splitlines() if ln.strip().startswith("rule=")})
    errs = sorted({ln.split("rule=")[1].split()[0] for ln in r.stdout.splitlines() if ln.startswith("ANALYSIS-ERROR") and "rule=" in ln})
    return r.returncode, rules if r.returncode == 1 else errs


def detect(patch: str, own: str) -> dict:
    "apply, run all checks in parallel (they only read /repo), undo"
    assert subprocess.run(["git", "-C", "/repo", "status", "--porcelain"], capture_output=True, text=True).stdout.strip() == "", "/repo not clean"
    subprocess.run(["git", "-C", "/repo", "apply", patch], check=True)
    try:
        cl = claimed_props()
        with ThreadPoolExecutor(8) as ex:
            res = dict(zip(cl, ex.map(run_check, cl)))
    finally:
        subprocess.run(["git", "-C", "/repo", "checkout", "--", "."], check=True)
    others = {p: {"exit": c, "rules": r} for p, (c, r) in res.items() if p != own and c != 0}
    return {"own_property_check_exit": res[own][0], "own_property_rules_reporting": res[own][1],
            "other_property_checks_reporting": others}


def first_try_text(det: dict) -> str:
    code, rules = det["own_property_check_exit"], det["own_property_rules_reporting"]
    if code == 1:
        return f"caught ({', '.join(rules)})"
    if code == 2:
        return f"reported as ANALYSIS-ERROR ({', '.join(rules)})"
    oth = [p for p, v in det["other_property_checks_reporting"].items() if v["exit"] == 1]
    return "missed" + (f" by its own property's check (reported by {', '.join(oth)})" if oth else "")


def intake() -> None:
    for cf in sorted(glob.glob(os.path.join(CONF, "C*_*.json"))):
        c = json.load(open(cf))
        key = f"{c['id']}_{c['k']}"
        d = os.path.join(ROOT, "seeded", key)
        if os.path.exists(os.path.join(d, "meta.json")):
            continue
        ok = c["apply_exit"] == 0 and c["demo_clean_exit"] == 0 and c["demo_mutated_exit"] != 0 and c["suite_exit"] == 0 and "3199 passed" in c["suite_summary"]
        if not ok:
            print("NOT CONFIRMED", key, c)
            continue
        os.makedirs(d, exist_ok=True)
        shutil.copy(os.path.join(OUT, c["id"], f"mutation_{c['k']}.diff"), os.path.join(d, "patch.diff"))
        shutil.copy(os.path.join(OUT, c["id"], f"demo_{c['k']}.py"), os.path.join(d, "demo.py"))
        notes = ""
        np_ = os.path.join(OUT, c["id"], f"notes_{c['k']}.md")
        if os.path.exists(np_):
            shutil.copy(np_, os.path.join(d, "notes.md"))
            notes = open(np_).read()
        det = detect(os.path.join(d, "patch.diff"), c["id"])
        ft = {}
        if os.path.exists("/tmp/wt/first_try.json"):
            ft = json.load(open("/tmp/wt/first_try.json"))  # verdicts recorded against the checks as they were before any strengthening
        det["against_the_checks_as_first_tried"] = ft.get(key, first_try_text(det))
        det["how_run"] = "git -C /repo apply seeded/<id>/patch.diff; /venv/bin/python -m sa.check --property <P>; git -C /repo checkout -- ."
        meta = {
            "id": key, "breaks_property": c["id"],
            "needs_to_manifest": notes[:1500],
            "confirmed_by_me": {
                "how": "tools/confirm_seeded.sh: fresh scratch git worktree of /repo under /tmp/cw, demo on the clean tree, git apply, demo, whole suite "
                       "(/venv/bin/python -m pytest -q -p no:cacheprovider --timeout=900), worktree removed",
                "demo_exit_on_clean_tree": c["demo_clean_exit"], "demo_exit_with_change": c["demo_mutated_exit"],
                "suite_with_change": c["suite_summary"], "diffstat": c["diffstat"], "demo_failure_tail": c["demo_mutated_tail"],
            },
            "detection": det,
        }
        json.dump(meta, open(os.path.join(d, "meta.json"), "w"), indent=1)
        print("INTAKE", key, det["against_the_checks_as_first_tried"])


def evaluate(only: list[str]) -> int:
    rows = []
    for mf in sorted(glob.glob(os.path.join(ROOT, "seeded", "C*_*", "meta.json"))):
        d = os.path.dirname(mf)
        meta = json.load(open(mf))
        key = meta["id"]
        if not only or any(key.startswith(o) for o in only):
            det = detect(os.path.join(d, "patch.diff"), meta["breaks_property"])
            for k in ("against_the_checks_as_first_tried", "how_run"):
                det[k] = meta["detection"].get(k, "not recorded")
            meta["detection"] = det
            json.dump(meta, open(mf, "w"), indent=1)
            print(key, "exit", det["own_property_check_exit"], det["own_property_rules_reporting"], "others:", sorted(det["other_property_checks_reporting"]))
        det = meta["detection"]
        rows.append((key, det["own_property_check_exit"], det["own_property_rules_reporting"],
                     sorted(det["other_property_checks_reporting"]), det["against_the_checks_as_first_tried"]))
    with open(os.path.join(ROOT, "seeded", "README.md"), "w") as f:
        f.write("# Seeded changes (written by independent sub-agents, confirmed by tools/confirm_seeded.sh)\n\n")
        f.write("Changes `_1`, `_2` are the first round, `_3`-`_5` the second, `_6`-`_8` the third (each must need something specific to manifest),\n"
                "`_9`-`_11` the fourth (prescribed kinds: outside the anchored bodies / data only / deletion or reordering), `_12`-`_14` the fifth\n"
                "(python / numpy semantics pitfall / error handling or validation / cross-module contract), `_15`, `_16` a short sixth (C02 C05 C11 C12 C16 C18, free choice).\n"
                "All but the first round were\n"
                "written when the checks already existed; the last column is the verdict of the checks as they were when the change was first tried.\n"
                "Three changes were not kept (C13_7, C20_8, C20_12): they do not break the property as stated (DESIGN.md section 7.6).\n\n")
        f.write("| change | own check exit | rules reporting | also reported by | against the checks as first tried |\n|---|---|---|---|---|\n")
        for key, code, rules, oth, first in rows:
            f.write(f"| {key} | {code} | {', '.join(rules)} | {', '.join(oth)} | {first} |\n")
        n1 = sum(1 for r in rows if r[1] == 1)
        f.write(f"\n{len(rows)} changes; {n1} reported as VIOLATION by their own property's check today.\n")
    shutil.rmtree("/tmp/.seeded_ev", ignore_errors=True)
    return 0


if __name__ == "__main__":
    cmd = sys.argv[1] if len(sys.argv) > 1 else "eval"
    if cmd == "intake":
        intake()
        sys.exit(evaluate(["-"]))  # README only
    sys.exit(evaluate(sys.argv[2:]))
