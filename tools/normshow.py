"""usage: normshow.py <qualname> [diff]  -- print the normalised source of a function (optionally with a diff applied to /repo first)"""
import ast, subprocess, sys
sys.path.insert(0, '/verif')
from sa.index import SourceIndex
q = sys.argv[1]
d = sys.argv[2] if len(sys.argv) > 2 else None
if d:
    subprocess.check_call(['git', '-C', '/repo', 'apply', d])
try:
    ix = SourceIndex('/repo')
    print(ast.unparse(ix.func(q).node))
    print('--- log:', [l for l in ix.normalization_log if q.rsplit('.', 1)[-1] in l or True][:40])
finally:
    if d:
        subprocess.check_call(['git', '-C', '/repo', 'checkout', '--', '.'])
