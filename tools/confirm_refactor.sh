#!/bin/bash
# usage: confirm_refactor.sh RC08 1  -- confirm a sub-agent's behaviour-preserving refactoring in a fresh scratch worktree
# (applies on the clean HEAD, whole suite passes); removes the worktree afterwards
set -u
ID=$1; K=$2
OUT=/tmp/wt/out/$ID
WT=/tmp/cw/${ID}_$K
RES=/tmp/wt/confirm/${ID}_$K.json
mkdir -p /tmp/cw /tmp/wt/confirm
git -C /repo worktree remove --force $WT >/dev/null 2>&1
git -C /repo worktree add -q --detach $WT HEAD || exit 3
cd $WT
git apply $OUT/refactor_$K.diff; APPLY=$?
PYTHONPATH=$WT timeout 3000 /venv/bin/python -m pytest -q -p no:cacheprovider --timeout=900 > $WT/.suite.log 2>&1; SUITE=$?
SUMMARY=$(tail -1 $WT/.suite.log | tr -d '"')
FILES=$(git diff --stat | tail -1 | tr -d '"')
cat > $RES <<JSON
{"id": "$ID", "k": $K, "apply_exit": $APPLY, "suite_exit": $SUITE, "suite_summary": "$SUMMARY", "diffstat": "$FILES"}
JSON
cd /; git -C /repo worktree remove --force $WT
cat $RES
