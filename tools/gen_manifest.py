"""regenerate /verif/MANIFEST.json from the rule modules that exist (run after adding a property)"""
import importlib, json, os, sys
ROOT = os.path.dirname(os.path.dirname(os.path.abspath(__file__)))
sys.path.insert(0, ROOT)
PY = "/venv/bin/python"
props = [json.loads(l) for l in open(os.path.join(ROOT, "properties.jsonl"))]
NOT_APPLICABLE = {
    "C19": "statement about the output *distribution* of the Wilson generator; no clause visible in the source is a "
           "necessary condition of uniformity that could be armed without also firing on distribution-preserving "
           "rewrites, and no sound static argument in reach bounds a sampling distribution (DESIGN.md section 5)",
}
checks, na = [], []
for p in props:
    pid = p["id"]
    try:
        mod = importlib.import_module(f"sa.rules.{pid.lower()}")
    except ModuleNotFoundError:
        na.append({"property_id": pid, "reason": NOT_APPLICABLE.get(pid, "no static clause implemented yet for this property in this round; not claimed")})
        continue
    clauses = ", ".join(r.id for r in mod.RULES)
    checks.append({
        "property_id": pid,
        "quick_cmd": f"{PY} -m sa.check --property {pid} --tier quick",
        "thorough_cmd": f"{PY} -m sa.check --property {pid} --tier thorough",
        "evidence_file": f"/verif/evidence/{pid}.json",
        "replay_cmd_template": f"{PY} -m sa.check --replay {{path}}",
        "engine": "sa",
        "level_claimed": {
            "category": "other",
            "text": ("static analysis of /repo's current source (ast; no execution): decides the structural clauses "
                     f"{clauses} - necessary conditions of the property visible in the shape of the code on every path - "
                     "not the runtime behaviour as a whole. " + mod.EXPLANATION),
            "design_ref": f"DESIGN.md section 4, {pid}",
        },
        "level_note": ("decides clauses " + clauses + " (necessary conditions), not the behaviour; trusted: "
                       + "; ".join(getattr(mod, "TRUSTED", [])) + ". assumes: " + "; ".join(getattr(mod, "ASSUMPTIONS", []))),
        "technique": getattr(mod, "TECHNIQUE", "custom ast-based static checker: clause rules over the normalised syntax tree, CFG / dominators, call graph, dataflow (taint, def-use), dimension typing, decision tables and abstract interpretation of source fragments over finite symbolic domains (no execution of repository code)"),
    })
manifest = {
    "version": 1,
    "setup_cmd": f"{PY} -m compileall -q sa selftest && {PY} -m sa.check --property C09 --evidence-dir /tmp/.verif_setup_smoke >/dev/null; rm -rf /tmp/.verif_setup_smoke; true",
    "hooks": {
        "guard": "MAZE_DATASET_VERIF",
        "enable": "none needed: the checks read /repo's working tree as it is; no hook commits exist, the guard name is reserved and unused",
        "baseline_off_cmd": "cd /repo && /venv/bin/python -m pytest -ra -q -p no:cacheprovider --timeout=900 --continue-on-collection-errors",
        "source_commits": [],
        "add_only": True,
    },
    "engines": [{
        "name": "sa", "path": "/verif/sa",
        "serves_properties": [c["property_id"] for c in checks],
        "kind_free_text": "repository-specific static analyser: ast source index with a behaviour-preserving normalising front end, dependency-source facts, CFG + reachability queries, call graph with registries, affine/relational normal forms, dataclass-semantics model, dimension typing, decision tables, abstract evaluator over symbolic domains, rejection-condition tables",
    }],
    "checks": checks,
    "not_applicable": na,
    "notes": "Every check exits 0 (clauses hold), 1 (VIOLATION line; a clause is violated at a named construct) or 2 (ANALYSIS-ERROR: anchor vanished or unfamiliar shape - never reported as pass or violation). Genuine defects found and repaired are listed as 'fixed' in /verif/known_findings.json (they suppress nothing).",
}
json.dump(manifest, open(os.path.join(ROOT, "MANIFEST.json"), "w"), indent=1)
print("claimed:", [c["property_id"] for c in checks]); print("not_applicable:", [n["property_id"] for n in na])
