"""write reference/exits.json: for the pinned tree (/repo at the time of writing), every function's rejection conditions
(polarity-free atom keys of its raise path conditions and assert tests) - the confirmed table of sa/exits.py"""
import json, os, sys
ROOT = os.path.dirname(os.path.dirname(os.path.abspath(__file__)))
sys.path.insert(0, ROOT)
from sa.index import SourceIndex
from sa import exits
repo = sys.argv[1] if len(sys.argv) > 1 else "/repo"
ix = SourceIndex(repo)
out = {}
readable = {}
for q, f in sorted(ix.functions.items()):
    at = exits.rejection_atoms(f.node)
    if at:
        out[q] = sorted({k for k, _, _ in at if k})
        readable[q] = sorted({t for k, t, _ in at if not k})
    else:
        out[q] = []
memo = {q: exits.memoised_mutable(f.node) for q, f in sorted(ix.functions.items()) if exits.memoised_mutable(f.node)}
narrow = {q: [k for k, _ in exits.narrowing_casts(f.node)] for q, f in sorted(ix.functions.items()) if exits.narrowing_casts(f.node)}
decos = {q: exits.decorator_texts(f.node) for q, f in sorted(ix.functions.items()) if exits.decorator_texts(f.node)}
rp = exits.rejecting_properties(ix)
eager = {q: sorted(a for a in exits.eager_attr_reads(f.node) if a in rp) for q, f in sorted(ix.functions.items())}
eager = {q: v for q, v in eager.items() if v}
import ast as _ast
nml = {}
for m in ix.modules.values():
    for name, node in m.assign_nodes.items():
        ks = [k for k, _ in exits.narrowing_casts(_ast.Module(body=[node], type_ignores=[]))]
        if ks:
            nml[f"{m.name}.{name}"] = ks
md = {q: sorted({(p_, h_.split(":")[0]) for p_, h_ in exits.mutable_default_leaks(f.node)}) for q, f in sorted(ix.functions.items()) if exits.mutable_default_leaks(f.node)}
json.dump({"memoised": memo, "mutable_defaults": md, "eager_rejecting_reads": eager, "narrowing_module_level": nml, "narrowing": narrow, "decorators": decos, "instance_state": exits.instance_state(ix), "_comment": "pinned tree: function -> subjects (root symbols) of its rejection conditions (raise path conditions, assert tests); `readable` is for humans",
           "commit": os.popen(f"git -C {repo} rev-parse --short HEAD").read().strip(), "functions": out, "readable": readable},
          open(os.path.join(ROOT, "reference", "exits.json"), "w"), indent=0)
print(len(memo), "memoised functions with mutable results;", len(out), "functions,", sum(1 for v in out.values() if v), "with rejection conditions,", sum(len(v) for v in out.values()), "atoms")
