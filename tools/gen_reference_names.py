"""write reference/pinned_names.json: for the pinned tree (/repo at the time of writing), every function's qualified name and
its local names in order of first binding.  Used only by sa/normalize.py to decide which behaviour-preserving rewrite to apply
(inline *new* helpers, propagate *new* single-definition locals, undo renames)."""
import ast, json, os, sys
ROOT = os.path.dirname(os.path.dirname(os.path.abspath(__file__)))
sys.path.insert(0, ROOT)
from sa.normalize import _functions, local_names, local_heads
repo = sys.argv[1] if len(sys.argv) > 1 else "/repo"
out = {}
mod_assigns = {}
for dp, dn, fns in sorted(os.walk(os.path.join(repo, "maze_dataset"))):
    dn[:] = sorted(d for d in dn if d != "__pycache__")
    for fn in sorted(fns):
        if not fn.endswith(".py"):
            continue
        p = os.path.join(dp, fn)
        rel = os.path.relpath(p, repo)[:-3].split(os.sep)
        if rel[-1] == "__init__":
            rel = rel[:-1]
        mod = ".".join(rel)
        tree = ast.parse(open(p).read())
        mod_assigns[mod] = sorted({t.id for st in tree.body for t in ((st.targets if isinstance(st, ast.Assign) else [st.target]) if isinstance(st, (ast.Assign, ast.AnnAssign)) else [])
                                   if isinstance(t, ast.Name)})
        for q, f, c, b in _functions(tree, mod):
            out[q] = {"locals": local_names(f), "heads": local_heads(f)}
json.dump({"_comment": "pinned tree: function -> locals in order of first binding (hints for behaviour-preserving normalisation only)",
           "commit": os.popen(f"git -C {repo} rev-parse --short HEAD").read().strip(), "functions": out, "module_assigns": mod_assigns},
          open(os.path.join(ROOT, "reference", "pinned_names.json"), "w"), indent=0)
print(len(out), "functions")
