"""self-test of the checker, both ways (DESIGN.md 7.4)

Each variant is a small edit applied to a scratch copy of /repo/maze_dataset (private temp dir,
removed immediately).  A *mutant* must make the named rule report a VIOLATION (exit 1); a *twin*
(behaviour-preserving rewrite) must leave the property's check silent (exit 0).  Variants that no
longer apply to the current source are reported as STALE (not as failures of the checker).

usage: python -m selftest.run [--property Cxx] [--jobs 16] [--only ID]
"""

from __future__ import annotations

import argparse
import ast
import json
import os
import shutil
import subprocess
import sys
import tempfile
from concurrent.futures import ProcessPoolExecutor

ROOT = os.path.dirname(os.path.dirname(os.path.abspath(__file__)))
sys.path.insert(0, ROOT)
PY = sys.executable


def load_variants() -> list[dict]:
    import importlib

    out = []
    d = os.path.join(ROOT, "selftest", "variants")
    for fn in sorted(os.listdir(d)):
        if fn.endswith(".py") and fn != "__init__.py":
            mod = importlib.import_module(f"selftest.variants.{fn[:-3]}")
            for v in mod.VARIANTS:
                v.setdefault("source", fn)
                out.append(v)
    return out


def run_variant(v: dict, repo: str = "/repo") -> dict:
    tmp = tempfile.mkdtemp(prefix="sa_variant_")
    try:
        shutil.copytree(os.path.join(repo, "maze_dataset"), os.path.join(tmp, "maze_dataset"),
                        ignore=shutil.ignore_patterns("__pycache__", "*.npz"))
        for e in v["edits"]:
            p = os.path.join(tmp, e["file"])
            s = open(p).read()
            if s.count(e["old"]) != 1:
                return {"id": v["id"], "status": "STALE", "detail": f"{e['file']}: old text occurs {s.count(e['old'])} times"}
            s = s.replace(e["old"], e["new"])
            try:
                ast.parse(s)
            except SyntaxError as ex:
                return {"id": v["id"], "status": "BROKEN-VARIANT", "detail": f"does not parse: {ex}"}
            open(p, "w").write(s)
        ev = os.path.join(tmp, "evidence")
        r = subprocess.run([PY, "-m", "sa.check", "--property", v["property"], "--repo", tmp, "--evidence-dir", ev],
                           cwd=ROOT, capture_output=True, text=True, timeout=900, env={**os.environ, "SA_WORKERS": "1"})  # the variants already fill the cores
        out = r.stdout
        rules_hit = sorted({ln.split("rule=")[1].split()[0] for ln in out.splitlines() if ln.strip().startswith("rule=")})
        kind = v.get("kind", "mutant")
        if kind == "mutant":
            want = v.get("expect_rule")
            ok = r.returncode == 1 and (want is None or any(h == want or h.startswith(want) for h in rules_hit))
            return {"id": v["id"], "status": "OK" if ok else "MISSED", "exit": r.returncode, "rules_hit": rules_hit,
                    "expect": want, "tail": out[-600:] if not ok else ""}
        ok = r.returncode == 0
        return {"id": v["id"], "status": "OK" if ok else "FALSE-ALARM", "exit": r.returncode, "rules_hit": rules_hit,
                "tail": out[-900:] if not ok else ""}
    finally:
        shutil.rmtree(tmp, ignore_errors=True)


def main() -> int:
    ap = argparse.ArgumentParser()
    ap.add_argument("--property")
    ap.add_argument("--only")
    ap.add_argument("--jobs", type=int, default=16)
    ap.add_argument("--repo", default="/repo")
    a = ap.parse_args()
    vs = load_variants()
    if a.property:
        vs = [v for v in vs if v["property"] == a.property]
    if a.only:
        vs = [v for v in vs if v["id"] == a.only]
    with ProcessPoolExecutor(max_workers=a.jobs) as ex:
        res = list(ex.map(run_variant, vs, [a.repo] * len(vs)))
    bad = 0
    for v, r in zip(vs, res):
        flag = r["status"]
        if flag not in ("OK",):
            bad += 1
        print(f"{flag:14s} {v['property']} {v.get('kind', 'mutant'):6s} {r['id']:40s} hit={r.get('rules_hit')} expect={r.get('expect', '-')}")
        if r.get("tail"):
            print("    " + r["tail"].replace("\n", "\n    "))
        if r.get("detail"):
            print("    " + r["detail"])
    n_m = sum(1 for v in vs if v.get("kind", "mutant") == "mutant")
    print(f"{len(vs)} variants ({n_m} mutants, {len(vs) - n_m} twins): {len(vs) - bad} ok, {bad} not ok")
    return 0 if bad == 0 else 1


if __name__ == "__main__":
    sys.exit(main())
